"""A small world of its own for one environment: the loop runs with asyncio.eager_task_factory (Python 3.12).

Under that factory a task takes its first step inside create_task(), so "request", "spawn" and "first step of the worker"
collapse into one synchronous stretch.  The big pool world (vf/world.py) models the lazy schedule and cannot be reused;
this one only keeps what does not depend on the schedule: ids are unique and dense, every task sits in the group its
request returned, cancel(id) / cancel_group(name) reach exactly their targets, the counters add up, the close empties
the pool.  Every worker suspends at least once before it ends: the library as found does not support tasks that end
within their first step under this factory (KeyError in its own bookkeeping), which is outside the properties.
"""

from __future__ import annotations

import asyncio
import random
from asyncio import CancelledError
from collections import Counter


def gen_scenario(rng):
    steps = []
    nreq = 0
    for _ in range(rng.randint(3, 9)):
        x = rng.random()
        if x < 0.3:
            steps.append({"op": "apply", "num": rng.choice([1, 1, 2, 3]), "named": rng.random() < 0.4, "nest": rng.random() < 0.35})
            nreq += 1
        elif x < 0.55:
            steps.append({"op": "map", "kind": rng.choice(["map", "starmap", "doublestarmap"]), "n": rng.choice([1, 2, 3, 4]), "nc": rng.choice([1, 2, 3]),
                          "named": rng.random() < 0.4, "nest": rng.random() < 0.2})
            nreq += 1
        elif x < 0.7:
            steps.append({"op": "cancel", "k": rng.randint(0, 8)})
        elif x < 0.8 and nreq:
            steps.append({"op": "cancel_group", "r": rng.randrange(nreq)})
        elif x < 0.9:
            steps.append({"op": "open", "k": rng.randint(1, 3)})
        else:
            steps.append({"op": "flush"})
    return {"cls": "T", "size": rng.choice([None, None, 2, 3, 5]), "steps": steps, "eager": True}


class World:
    def __init__(self, mods, sc):
        self.mods, self.sc = mods, sc
        self.viol, self.sit, self.log = [], Counter(), []
        self.workers = []  # dicts: req, tid, name, outcome, gate
        self.reqs = []  # dicts: name, n (expected invocations), cancelled

    def violate(self, clause, msg):
        if len(self.viol) < 8:
            self.viol.append({"clause": clause, "msg": msg, "at": len(self.log), "triggers": ["T.eager_task_factory"]})

    def note(self, *a):
        self.log.append(" ".join(str(x) for x in a))

    def run(self):
        loop = asyncio.new_event_loop()
        if self.sc.get("eager", True):
            loop.set_task_factory(asyncio.eager_task_factory)
        errors = []
        loop.set_exception_handler(lambda lp, ctx: errors.append(repr(ctx.get("exception")) + " " + str(ctx.get("message"))))
        try:
            loop.run_until_complete(asyncio.wait_for(self._main(), 60))
        except asyncio.TimeoutError:
            return {"viol": self.viol, "sit": dict(self.sit), "inconclusive": "watchdog"}
        finally:
            try:
                for t in asyncio.all_tasks(loop):
                    t.cancel()
                loop.run_until_complete(asyncio.sleep(0))
            except Exception:  # noqa: BLE001
                pass
            loop.close()
        for e in errors:
            if "KeyError" in e or "Error" in e:
                self.violate("C02.internal_error", f"loop exception handler: {e[:160]}")
        return {"viol": self.viol, "sit": dict(self.sit), "inconclusive": None}

    async def settle(self):
        for _ in range(8):
            await asyncio.sleep(0)

    def make_worker(self, req_idx, pool, nest):
        world = self

        async def worker(*args, **kwargs):
            task = asyncio.current_task()
            # (the task's name is only set after create_task() returns, i.e. after this eager first step: see resolve())
            rec = {"req": req_idx, "tid": None, "name": None, "outcome": None, "gate": asyncio.Event(), "task": task}
            world.workers.append(rec)
            world.note("begin", req_idx)
            if nest and world.sc["cls"] == "T" and not pool.is_locked:
                # user code that uses the pool in its synchronous prologue (before its first await)
                child = len(world.reqs)
                world.reqs.append({"name": None, "n": 1, "cancelled": False, "nested": True})
                try:
                    world.reqs[child]["name"] = pool.apply(world.make_worker(child, pool, False), group_name=f"nested-{child}")
                    world.sit["eager.nested_apply_in_prologue"] += 1
                except Exception as e:  # noqa: BLE001
                    world.reqs[child]["n"] = 0
                    world.note("nested apply raised", type(e).__name__)
            try:
                await rec["gate"].wait()
                await asyncio.sleep(0)
                rec["outcome"] = "returned"
            except CancelledError:
                rec["outcome"] = "cancelled"
                raise

        worker.__name__ = worker.__qualname__ = "w"
        return worker

    def resolve(self):
        for w in self.workers:
            if w["tid"] is None:
                name = w["task"].get_name()
                w["name"] = name
                try:
                    if "_Task-" not in name:
                        raise ValueError(name)
                    w["tid"] = int(name.rsplit("-", 1)[1])
                except ValueError:
                    w["tid"] = -1 - len(self.log)
                    self.violate("C11.task_name", f"task name {name!r}")

    def check_groups(self, pool, where):
        self.resolve()
        ids_seen = Counter(w["tid"] for w in self.workers)
        dup = [i for i, n in ids_seen.items() if n > 1]
        if dup:
            self.violate("C11.unique", f"{where}: task id(s) {dup} belong to more than one task: {[w['name'] for w in self.workers if w['tid'] in dup]}")
        if ids_seen and sorted(ids_seen) != list(range(len(ids_seen))) and not dup:
            self.violate("C11.dense", f"{where}: ids {sorted(ids_seen)} are not 0..{len(ids_seen) - 1}")
        for ri, rq in enumerate(self.reqs):
            if rq["name"] is None or rq["cancelled"]:
                continue
            mine = {w["tid"] for w in self.workers if w["req"] == ri}
            try:
                got = set(pool.get_group_ids(rq["name"]))
            except Exception as e:  # noqa: BLE001
                self.violate("C10.group_ids", f"{where}: get_group_ids({rq['name']!r}) raised {type(e).__name__}")
                continue
            if got != mine:
                self.violate("C10.group_ids", f"{where}: group {rq['name']!r} reports {sorted(got)}, the tasks created for it are {sorted(mine)}")
            else:
                self.sit["eager.group_ids_ok"] += 1

    async def _main(self):
        P = self.mods.pool
        sc = self.sc
        kw = {} if sc["size"] is None else {"pool_size": sc["size"]}
        if sc["cls"] == "T":
            pool = P.TaskPool(**kw)
        else:
            pool = P.SimpleTaskPool(self.make_worker(0, None, False), **kw)
        for st in sc["steps"]:
            op = st["op"]
            if op in ("apply", "map"):
                ri = len(self.reqs)
                rq = {"name": None, "n": 0, "cancelled": False}
                self.reqs.append(rq)
                try:
                    if sc["cls"] == "S":
                        ri = 0  # all workers of a SimpleTaskPool share the pool's function
                        self.reqs.pop()
                        n = st.get("num", st.get("n", 1))
                        name = pool.start(n)
                        self.reqs.append({"name": name, "n": n, "cancelled": False, "sgroup": True})
                    elif op == "apply":
                        kw2 = {"group_name": f"g{ri}"} if st["named"] else {}
                        rq["n"] = st["num"]
                        rq["name"] = pool.apply(self.make_worker(ri, pool, st["nest"]), num=st["num"], **kw2)
                    else:
                        n = st["n"]
                        it = {"map": list(range(n)), "starmap": [(i,) for i in range(n)], "doublestarmap": [{"a": i} for i in range(n)]}[st["kind"]]
                        kw2 = {"group_name": f"g{ri}"} if st["named"] else {}
                        rq["n"] = n
                        rq["name"] = getattr(pool, st["kind"])(self.make_worker(ri, pool, st["nest"]), it, num_concurrent=st["nc"], **kw2)
                    self.sit["eager.requests"] += 1
                except Exception as e:  # noqa: BLE001
                    self.violate("C09.type", f"{op} raised {type(e).__name__}: {e} although nothing is wrong")
            elif op == "cancel":
                self.resolve()
                live = [w for w in self.workers if w["outcome"] is None]
                if live:
                    target = live[st["k"] % len(live)]
                    before = {id(w): w["outcome"] for w in self.workers}
                    try:
                        pool.cancel(target["tid"])
                    except Exception as e:  # noqa: BLE001
                        self.violate("C06.accept", f"cancel({target['tid']}) of a running task raised {type(e).__name__}: {e}")
                        continue
                    await self.settle()
                    if target["outcome"] != "cancelled":
                        self.violate("C06.deliveries", f"cancel({target['tid']}): the task named {target['name']!r} did not observe a CancelledError (outcome {target['outcome']})")
                    for w in self.workers:
                        if w is not target and before.get(id(w)) is None and w["outcome"] == "cancelled":
                            self.violate("C06.bystander", f"cancel({target['tid']}) cancelled the task {w['name']!r} of request {w['req']}")
                    self.sit["eager.cancel"] += 1
            elif op == "cancel_group":
                cand = [r for r in self.reqs if r["name"] is not None and not r["cancelled"]]
                if cand and sc["cls"] == "T":
                    rq = cand[st["r"] % len(cand)]
                    ri = self.reqs.index(rq)
                    try:
                        pool.cancel_group(rq["name"])
                    except Exception as e:  # noqa: BLE001
                        self.violate("C07.unknown", f"cancel_group({rq['name']!r}) raised {type(e).__name__}: {e}")
                        continue
                    rq["cancelled"] = True
                    await self.settle()
                    self.resolve()
                    for w in self.workers:
                        if w["req"] == ri and w["outcome"] is None:
                            self.violate("C07.members_cancelled", f"cancel_group({rq['name']!r}): its task {w['name']!r} keeps running")
                    self.sit["eager.cancel_group"] += 1
            elif op == "open":
                live = [w for w in self.workers if w["outcome"] is None and not w["gate"].is_set()]
                for w in live[: st["k"]]:
                    w["gate"].set()
            elif op == "flush":
                try:
                    await pool.flush(return_exceptions=True)
                except Exception as e:  # noqa: BLE001
                    self.violate("C13.no_raise", f"flush(return_exceptions=True) raised {type(e).__name__}")
            await self.settle()
            self.check_groups(pool, f"after {op}")
        # everything is let go; the close must empty the pool
        for _ in range(40):
            live = [w for w in self.workers if w["outcome"] is None and not w["gate"].is_set()]
            for w in live:
                w["gate"].set()
            await self.settle()
            if not live:
                break
        try:
            await asyncio.wait_for(pool.gather_and_close(return_exceptions=True), 20)
        except asyncio.TimeoutError:
            self.violate("C08.progress", "gather_and_close() did not return although every worker had been released")
            return
        except Exception as e:  # noqa: BLE001
            self.violate("C12.return_exceptions", f"gather_and_close(return_exceptions=True) raised {type(e).__name__}: {e}")
            return
        if pool.num_running or pool.num_cancelled or pool.num_ended:
            self.violate("C08.empty", f"after gather_and_close: running={pool.num_running} cancelled={pool.num_cancelled} ended={pool.num_ended}")
        for ri, rq in enumerate(self.reqs):
            if rq.get("sgroup") or rq["cancelled"] or rq["name"] is None:
                continue
            made = sum(1 for w in self.workers if w["req"] == ri)
            if made != rq["n"]:
                self.violate("C04.count" if rq.get("nested") or "apply" in str(rq["name"]) else "C05.once_in_order",
                             f"request {ri} ({rq['name']!r}): {made} invocations, {rq['n']} expected")
        self.resolve()
        pending = [w["name"] for w in self.workers if w["outcome"] is None]
        if pending:
            self.violate("C08.waits_all", f"gather_and_close returned while {pending} had not finished")
        self.sit["eager.closed"] += 1


def make_case(seed, cid, i):
    return gen_scenario(random.Random(f"{seed}:{cid}:eager:{i}"))


def run_case(mods, case, verbose=False):
    w = World(mods, case)
    r = w.run()
    out = {"viol": r["viol"], "sit": r["sit"], "inconclusive": r["inconclusive"], "nontrivial": r["sit"].get("eager.requests", 0) > 0,
           "sig": "eager:" + str(hash(str(case)) & 0xFFFFFFFF), "extra": {}}
    if r["viol"]:
        out["log_tail"] = w.log[-60:]
    if verbose:
        out["log"] = w.log
    out["sample"] = {"case": case, "log_head": w.log[:20]}
    return out
