"""Per-property check definitions (which world, which generator bias, which floors)."""

from __future__ import annotations

import hashlib

from . import gen

ASSUME_POOL = [
    "CPython 3.12.1 asyncio semantics (FIFO ready queue, Task.cancel delivery at next resumption)",
    "schedules are the natural executions of the generated user programs; no yields are injected into library code",
    "user code does not touch private attributes of the pool or cancel the pool's asyncio tasks directly",
    "quiescence = a full loop iteration in which only the conductor ran, no timers, no I/O sources",
]


# checks that also run the small schedule-independent world of vf/eager.py (loop with asyncio.eager_task_factory)
EAGER_FAMILY = {"C06", "C10", "C11"}


def scaled_floors(cid, names, tier, ratio):
    """Coverage floors: calibrated on the unchanged tree (tools/calibrate.py -> vf/floors.json) with a wide margin."""
    import json
    import os

    if os.environ.get("VERIF_NO_FLOORS"):
        return {}
    path = os.path.join(os.path.dirname(os.path.abspath(__file__)), "floors.json")
    try:
        with open(path) as f:
            cal = json.load(f).get(cid, {})
    except OSError:
        cal = {}
    mult = 1 if tier == "quick" else max(1.0, ratio * 0.5)
    # every check runs a share of its executions with the library's loggers at DEBUG / with a custom (lazy) task factory
    names = list(names) + ["env.debug_logging_cases", "env.custom_task_factory_cases"] + (["eager.group_ids_ok", "eager.cancel", "eager.closed"] if cid in EAGER_FAMILY else [])
    return {k: max(1, int(cal.get(k, 1) * mult)) for k in names}


class PoolCheck:
    world = "pool"
    chunk = 400

    def __init__(self, cid, prof, rule, nontrivial, n_quick, n_thorough, floors=None, level="exploration", sweeps=None):
        self.cid = cid
        self.prof = prof
        self.rule = rule
        self.nontrivial = nontrivial
        self.n = {"quick": n_quick, "thorough": n_thorough}
        self._floors = floors or {}
        self.level = level
        self.assumptions = ASSUME_POOL
        self.mods = None
        if sweeps is None:
            from . import sweeps as _sw

            sweeps = cid if cid in _sw.SPECS else None
        self.sweeps = sweeps
        if self.sweeps:
            self.rule += ("; family 'sweep': one perturbing operation (" + ", ".join(__import__("vf.sweeps", fromlist=["SPECS"]).SPECS[self.sweeps]) + ") placed at every loop "
                          "iteration (head and tail queue position) and at every user-code point of 12 hand-written base scenarios - quick tier: a seed-dependent stride through that table, "
                          "thorough tier: the complete table plus 6000 sampled pairs of placements")
        if KNOWN_CASES.get(cid):
            self.rule += "; family 'known': hand-written histories reproducing each recorded finding"

    def prepare(self):
        from . import mods

        self.mods = mods.load()

    def families(self, tier):
        fams = [("random", self.n[tier])]
        if KNOWN_CASES.get(self.cid):
            fams.insert(0, ("known", len(KNOWN_CASES[self.cid])))
        if self.sweeps:
            from . import sweeps

            fams.append(("sweep", sweeps.count(self.sweeps, tier)))
        if self.cid in EAGER_FAMILY:
            fams.append(("eager", 400 if tier == "quick" else 12000))
        return fams

    def floors(self, tier):
        return scaled_floors(self.cid, list(self._floors), tier, self.n["thorough"] / max(1, self.n["quick"]))

    def timeout(self, tier):
        return 900 if tier == "quick" else 7200

    def make_case(self, fam, seed, i, tier):
        if fam == "eager":
            from . import eager

            return eager.make_case(seed, self.cid, i)
        if fam == "random":
            return gen.Gen(f"{seed}:{self.cid}:{i}", self.prof).scenario()
        if fam == "known":
            import copy

            return copy.deepcopy(KNOWN_CASES[self.cid][i % len(KNOWN_CASES[self.cid])])
        from . import sweeps

        return sweeps.case(self.sweeps, seed, i, tier)

    def run_case(self, case, verbose=False):
        if case.get("eager"):
            from . import eager

            return eager.run_case(self.mods, case, verbose)
        from .world import World

        w = World(case, self.mods, focus=self.cid)
        r = w.run()
        self._last = (w, r)
        sit = r["sit"]
        out = {
            "viol": r["viol"],
            "sit": sit,
            "inconclusive": r["inconclusive"],
            "nontrivial": bool(self.nontrivial(sit)),
            "sig": hashlib.md5(repr((r["opsig"], r["bigram_sig"])).encode()).hexdigest()[:16],
            "extra": {"sweep_placements": 1 if case.get("sweep") else 0, "events": r["events"], "loop_iterations": r["iterations"], "handles": r["handles"],
                      "quiescent_points": r["quiescences"], "user_code_points": r["ucp"], "instant_checks": w.n_instant},
        }
        if r["viol"]:
            out["log_tail"] = w.dump_log(last=60)
        if verbose:
            out["log"] = w.dump_log()
        out["sample"] = {"scenario": case, "events": r["events"], "log_head": w.dump_log()[:40]}
        return out


# Hand-written histories that reproduce each recorded finding deterministically (so that the KNOWN-FINDING line
# is printed on every run while the defect exists, and disappears when it is repaired).
_SELF_CANCEL_BODY = {"pre": [["y", 1], ["op", {"op": "cancel_all", "pool": 0}]]}  # requests its own cancellation, then returns without suspending
KNOWN_CASES = {
    "C08": [
        {"pools": [{"cls": "T", "size": 2}], "steps": [{"op": "apply", "pool": 0, "num": 1, "args": 0, "fname": "w", "marker": True, "bodies": [_SELF_CANCEL_BODY]}, {"op": "idle"}],
         "final": {"probe": False, "gac": True, "gac_rex": False}, "known": "KF-D9-C08"},
        {"pools": [{"cls": "S", "size": None, "args": 0, "bodies": [{"pre": [["y", 2], ["op", {"op": "stop_all", "pool": 0}]]}]}],
         "steps": [{"op": "start", "pool": 0, "num": 1}, {"op": "idle"}], "final": {"probe": False, "gac": True, "gac_rex": False}, "known": "KF-D9-C08"},
    ],
    "C12": [
        {"pools": [{"cls": "T", "size": 2}], "steps": [{"op": "apply", "pool": 0, "num": 1, "args": 0, "fname": "w", "marker": True, "bodies": [_SELF_CANCEL_BODY]}, {"op": "idle"},
                                                         {"op": "flush", "pool": 0, "rex": False}, {"op": "idle"}],
         "final": {"probe": True, "gac": False}, "known": "KF-D9-C12"},
    ],
}


def twinify(sc):
    """Normalise a scenario so that 'failure' and 'success' are comparable: exceptions are collected, not raised, by flush / close."""
    def walk(x):
        if isinstance(x, dict):
            if x.get("op") in ("flush", "gac"):
                x["rex"] = True
            if x.get("oncancel") == "raise":
                x["oncancel"] = "prop"
            x.pop("callraise", None)
            x.pop("bad", None)
            for v in x.values():
                walk(v)
        elif isinstance(x, list):
            for v in x:
                walk(v)
    walk(sc)
    sc.setdefault("final", {})["gac_rex"] = True
    sc["twin"] = True
    return sc


def norm_log(log):
    out = []
    for e in log:
        if e[0] == "finish" and e[5] in ("raise", "return"):
            e = e[:5] + ("done",)
        elif e[0] == "pool":
            e = e[:6]  # the generated name of an unnamed pool depends on how many pools the process has made
        out.append(e)
    return out


class C12Check(PoolCheck):
    """Adds the twin family: the same scenario with every injected failure replaced by success must produce the same event log."""

    def families(self, tier):
        return super().families(tier) + [("twin", 2500 if tier == "quick" else 100000)]

    def make_case(self, fam, seed, i, tier):
        if fam == "twin":
            return twinify(gen.Gen(f"{seed}:C12twin:{i}", self.prof).scenario())
        return super().make_case(fam, seed, i, tier)

    def run_case(self, case, verbose=False):
        out = super().run_case(case, verbose)
        if not case.get("twin"):
            return out
        from .world import World

        a, ra = self._last
        b = World(case, self.mods, no_faults=True)
        rb = b.run()
        la, lb = norm_log(a.log), norm_log(b.log)
        out["sit"] = dict(out["sit"])
        if a.excs:
            out["sit"]["C12.twin_compared"] = 1
            if la != lb:
                k = next((i for i, (x, y) in enumerate(zip(la, lb)) if x != y), min(len(la), len(lb)))
                out["viol"] = list(out["viol"]) + [{"clause": "C12.twin", "msg": f"with {len(a.excs)} injected failures the run diverges from the run in which they succeed, at event {k}: "
                                                     f"{la[k] if k < len(la) else None} vs {lb[k] if k < len(lb) else None}", "at": k, "triggers": ra["triggers"]}]
                out["log_tail"] = [" ".join(map(str, e)) for e in la[max(0, k - 25):k + 5]] + ["--- twin (failures replaced by success) ---"] + [" ".join(map(str, e)) for e in lb[max(0, k - 5):k + 5]]
        return out


class SessionFamilyCheck(PoolCheck):
    """Adds a 'session' family: the operations of this property issued as control commands (in-memory sessions on a
    real, never started server object; optionally a second served pool of the same class that gets the same lines),
    compared after every command with a twin pool driven by direct calls (vf/c17.py)."""

    session_n = (300, 10000)
    session_prop = None  # e.g. "C15"
    session_key = "pool_size"  # the command whose use makes a session non-trivial

    def session_only(self, cls):
        raise NotImplementedError

    def session_tweak(self, sc, i):
        pass

    def prepare(self):
        from . import control, mods

        self.mods = control.load_control(mods.load())

    def families(self, tier):
        return super().families(tier) + [("session", self.session_n[0] if tier == "quick" else self.session_n[1])]

    def make_case(self, fam, seed, i, tier):
        if fam == "session":
            import random

            from . import c17

            sc = c17.gen_scenario(random.Random(f"{seed}:{self.cid}s:{i}"))
            sc["cls"] = "T" if i % 2 else "S"
            sc["sfunc"] = "block"
            sc["size"] = [1, 2, 3, None][i % 4]
            sc["as_prop"] = self.session_prop
            sc["noise"] = False
            sc["only"] = self.session_only(sc["cls"])
            self.session_tweak(sc, i)
            return sc
        return super().make_case(fam, seed, i, tier)

    def run_case(self, case, verbose=False):
        if not case.get("as_prop"):
            return super().run_case(case, verbose)
        from . import c17

        w = c17.World(self.mods, case)
        r = w.run()
        sit = dict(r["sit"])
        key = "C17.cmd." + self.session_key
        sit[f"{self.cid}.session_{self.session_key}_commands"] = sit.get(key, 0)
        out = {"viol": r["viol"], "sit": sit, "inconclusive": r["inconclusive"], "nontrivial": sit.get(key, 0) > 0,
               "sig": "session:" + str(case["seed"]), "extra": {}}
        if r["viol"]:
            out["log_tail"] = w.log[-60:]
        if verbose:
            out["log"] = w.log
        out["sample"] = {"case": case, "log_head": w.log[:20]}
        return out


class C15Check(SessionFamilyCheck):
    """Session family: pool_size read and assigned through a control session."""

    session_prop = "C15"
    session_key = "pool_size"

    def session_only(self, cls):
        return ["pool_size", "pool_size", "pool_size", "num_running", "is_full"] + (["apply", "cancel_all"] if cls == "T" else ["start", "stop", "stop_all"])


class C06Check(SessionFamilyCheck):
    """Session family: cancel sent as a command to one of two served pools of the same class."""

    session_prop = "C06"
    session_key = "cancel"
    session_n = (200, 6000)

    def session_only(self, cls):
        return ["cancel", "cancel", "cancel", "num_running", "num_cancelled"] + (["apply", "apply"] if cls == "T" else ["start", "start"])

    def session_tweak(self, sc, i):
        sc["decoy"] = True
        sc["size"] = [None, 3, None, 5][i % 4]


class C09Check(SessionFamilyCheck):
    """Adds the no-trace family (the same scenario without its rejected requests must produce the same event log) and a
    session family: requests with and without rejection causes sent as control commands, compared with a twin pool."""

    session_prop = "C09"
    session_key = "lock"
    session_n = (200, 6000)

    def session_only(self, cls):
        if cls == "T":
            return ["map", "starmap", "doublestarmap", "apply", "apply", "lock", "unlock", "is_locked", "num_running"]
        return ["start", "start", "lock", "unlock", "is_locked", "stop", "num_running"]

    def session_tweak(self, sc, i):
        sc["sfunc"] = "work"

    def families(self, tier):
        return super().families(tier) + [("notrace", 2500 if tier == "quick" else 100000)]

    def make_case(self, fam, seed, i, tier):
        if fam == "notrace":
            sc = gen.Gen(f"{seed}:C09nt:{i}", self.prof).scenario()
            sc["notrace"] = True
            return sc
        return super().make_case(fam, seed, i, tier)

    def run_case(self, case, verbose=False):
        out = super().run_case(case, verbose)
        if not case.get("notrace") or case.get("as_prop"):
            return out
        from .world import World

        a, ra = self._last
        nrej = sum(1 for e in a.log if e[0] == "rej_raise")
        if not nrej or ra["viol"]:
            return out
        b = World(case, self.mods, skip_rejected=True)
        b.run()
        la = [e for e in norm_log(a.log) if e[0] not in ("rej_call", "rej_raise")]
        lb = norm_log(b.log)
        out["sit"] = dict(out["sit"])
        out["sit"]["C09.notrace_compared"] = 1
        if la != lb:
            k = next((i for i, (x, y) in enumerate(zip(la, lb)) if x != y), min(len(la), len(lb)))
            out["viol"] = list(out["viol"]) + [{"clause": "C09.no_trace", "msg": f"the run with its {nrej} rejected requests differs from the same run without them, at event {k}: "
                                                 f"{la[k] if k < len(la) else None} vs {lb[k] if k < len(lb) else None}", "at": k, "triggers": ra["triggers"]}]
            out["log_tail"] = [" ".join(map(str, e)) for e in la[max(0, k - 25):k + 5]] + ["--- same scenario without the rejected requests ---"] + [" ".join(map(str, e)) for e in lb[max(0, k - 5):k + 5]]
        return out


class C13Check(PoolCheck):
    """Adds the server family: a control session's pending flush and the program's own flush while the control server is stopped."""

    def prepare(self):
        from . import control, mods

        self.mods = control.load_control(mods.load())

    def families(self, tier):
        return super().families(tier) + [("server", 48 if tier == "quick" else 1500)]

    def make_case(self, fam, seed, i, tier):
        if fam == "server":
            import random

            from . import c13s

            return c13s.gen_case(random.Random(f"{seed}:C13s:{i}"))
        return super().make_case(fam, seed, i, tier)

    def run_case(self, case, verbose=False):
        if not case.get("server_flush"):
            return super().run_case(case, verbose)
        from . import c13s

        w = c13s.World(self.mods, case)
        r = w.run()
        out = {"viol": r["viol"], "sit": r["sit"], "inconclusive": r["inconclusive"], "nontrivial": r["sit"].get("C13.server.kept", 0) > 0,
               "sig": "server:" + str(case["seed"]), "extra": {}}
        if r["viol"]:
            out["log_tail"] = w.log[-40:]
        if verbose:
            out["log"] = w.log
        out["sample"] = {"case": case, "log_head": w.log[:12]}
        return out


def has(*keys):
    def f(sit):
        return all(any(k2.startswith(k) and v > 0 for k2, v in sit.items()) for k in keys)

    return f


P = gen.profile

CHECKS = {}


def reg(c):
    CHECKS[c.cid] = c


reg(PoolCheck(
    "C01", P(sizes=[0, 0, 1, 1, 2, 2, 3, 3, 4, None], w={"apply": 8, "map": 8, "start": 8, "reject": 0, "probe": 0.2, "grow_size": 1.5, "set_same": 3}, inner_ops=0.25, cb=0.6, init_size=0.45, npools=[1, 2, 2]),
    "random scenarios (1-2 pools, sizes 0..4/unbounded, 5-35 operations incl. spawn/cancel/flush/close placed at iteration "
    "boundaries and inside workers/callbacks/iterators); non-trivial = a task began into the last free slot and tasks ended in "
    ">=2 different ways; distinct = distinct (operation,situation) sequence + event-bigram signature",
    lambda s: s.get("C01.begin_at_last_slot", 0) > 0 and sum(1 for k in ("end.return", "end.raise", "end.cancelled") if s.get(k)) >= 2,
    6000, 120000,
    floors={"C01.begin_at_last_slot": 2000, "C01.is_full.full": 200, "C01.is_full.room": 500, "C01.reconfigured_empty_pool.waiting": 50,
            "C01.size_given_by_assignment": 500, "C01.size_given_by_assignment.was_unbounded": 50, "C01.same_size_assigned.busy": 100},
))

reg(PoolCheck(
    "C02", P(w={"cancel": 7, "cancel_group": 5, "cancel_all": 2, "stop": 6, "flush": 4, "intruder": 4, "reject": 0, "probe": 1, "set_size": 1.2, "gac": 1.2},
             cb=0.7, cb_gate=0.35, inner_ops=0.25),
    "cancel/flush-heavy random scenarios with slow, gated and raising callbacks; cancellations placed by conductor, intruder tasks, "
    "workers and callbacks incl. before a task's first step; non-trivial = a cancellation was delivered and a flush or async callback overlapped; "
    "distinct by operation/situation sequence + event-bigram signature",
    lambda s: any(k.startswith("cancel.") for k in s) and (s.get("C13.flush_returned") or s.get("cb.e.async") or s.get("cb.c.async")),
    6000, 120000,
    floors={"cancel_with_msg": 200, "cancel.id.unbegun": 20, "cancel.group.unbegun": 20, "C02.probe.idle": 1500, "C02.idle_checks.busy": 500},
))

reg(PoolCheck(
    "C03", P(w={"cancel": 7, "cancel_group": 4, "cancel_all": 2, "stop": 5, "flush": 3, "reject": 0, "set_size": 1.5}, cb=0.85, cb_async=0.6, cb_gate=0.3, fault=0.2),
    "random scenarios mixing return/raise/cancel endings with none/plain/coroutine/gated/raising callbacks and repeated cancellations; "
    "non-trivial = both callback kinds fired and an async callback was used; distinct by signature",
    lambda s: any(k.startswith("cb.c.") for k in s) and any(k.startswith("cb.e.") for k in s) and (s.get("cb.e.async") or s.get("cb.c.async")),
    6000, 120000,
    floors={"C03.cb_state_checks": 10000, "cb.c.async": 300, "cb.c.sync": 300, "cb.e.async": 2000, "cb.e.sync": 2000},
))

reg(PoolCheck(
    "C04", P(cls=["T", "T", "S"], npools=[1, 1, 2, 2], w={"apply": 12, "start": 12, "map": 3, "lock": 3, "unlock": 2, "gac": 1, "cancel": 3, "cancel_group": 2, "reject": 0, "set_size": 0.8, "regroup": 2.5},
             callraise=0.2),
    "random scenarios dominated by apply/start requests (num 0..8, args/kwargs shapes) on small pools with lock/unlock/gather_and_close and unrelated "
    "cancellations after acceptance; non-trivial = a request was accepted on a full pool and completed its exact count; distinct by signature",
    lambda s: s.get("C04.count_checked", 0) > 0 and any(k.endswith("accepted:full") for k in s),
    6000, 120000,
    floors={"C04.count_checked": 3000, "C04.num0": 50, "C04.callraise": 50, "lock_midspawn": 50},
))

reg(PoolCheck(
    "C05", P(cls=["T"], sizes=[1, 2, 2, 3, 4, None, None], w={"map": 14, "apply": 3, "cancel": 4, "start": 0, "stop": 0, "cancel_group": 1, "cancel_all": 0.3, "reject": 0, "set_size": 0.8},
             bad_elems=0.35, gate=0.4),
    "random scenarios with 1-4 concurrent map/starmap/doublestarmap requests (0..12 elements through a counting generator, num_concurrent 1..4), "
    "gated completion orders, single cancellations, bad elements; non-trivial = more elements than num_concurrent and the tight laziness bound was reached; distinct by signature",
    lambda s: s.get("C05.n_gt_nc", 0) > 0 and s.get("C05.lazy_tight", 0) > 0,
    6000, 120000,
    floors={"C05.empty_element": 100, "C05.work_conserving_checked": 300, "C05.lazy_tight": 5000, "C05.skip_checked": 300, "C05.begin_at_nc": 2000},
))

reg(C06Check(
    "C06", P(w={"cancel": 14, "intruder": 5, "flush": 3, "cancel_group": 2, "stop": 2, "reject": 0, "qput": 4}, inner_ops=0.3, cb=0.6, cb_gate=0.4, qwait=0.35),
    "random scenarios in which cancel(*ids) is called with 0..4 ids drawn from running / repeated / pending / unbegun / in-callback / ended / flushed / never-issued / negative ids "
    "by conductor, intruders, workers and callbacks, workers suspended in gates, sleeps or `async with` on the library's Queue; family 'session': cancel sent as a control command while a second served "
    "pool of the same class gets the same lines; non-trivial = a call mixed valid and offending ids, or a call was accepted; distinct by signature",
    lambda s: s.get("C06.mixed", 0) > 0 or s.get("C06.accepted_calls", 0) > 0,
    6000, 120000,
    floors={"C06.mixed": 300, "C06.reject.AlreadyEnded": 300, "C06.reject.AlreadyCancelled": 20, "C06.reject.InvalidTaskID": 300, "C06.delivered_exact": 1000,
            "C06.session_cancel_commands": 100, "C17.decoy_lines": 100, "q.wait": 500, "q.got.pending": 1, "flush_inline": 100, "until_closed.wait.with_others": 50},
))

reg(PoolCheck(
    "C07", P(sizes=[1, 1, 2, 2, 3, None], w={"cancel_group": 10, "cancel_all": 3, "apply": 8, "map": 8, "start": 8, "intruder": 5, "reject": 0}, inner_ops=0.35, named=0.5),
    "random scenarios with several sibling groups on saturated pools; cancel_group/cancel_all issued by conductor, intruders, workers and callbacks (own and foreign groups), "
    "immediate name re-use; non-trivial = a cancelled group still had unspawned work; distinct by signature",
    lambda s: s.get("C07.unspawned_work", 0) > 0,
    6000, 120000,
    floors={"C07.siblings_ok": 500, "C07.spawner.not_started": 100, "C07.spawner.wait_pool_room": 300, "C07.spawner.wait_map_slot": 50, "C07.spawner.finished": 300,
            "C07.issuer.worker": 50, "C07.issuer.cb": 20, "C07.issuer.intruder": 100, "C07.unknown_name": 100},
))

reg(PoolCheck(
    "C08", P(sizes=[1, 1, 2, 2, 3, None], w={"gac": 5, "cancel_all": 2, "cancel_group": 3, "lock": 1.5, "reject": 0, "probe": 0, "set_size": 1.0}, final_gac=1.0, cb=0.7, cb_gate=0.35),
    "random scenarios ending in (or interleaved with) gather_and_close() with until_closed() waiters: pending and blocked spawners, groups cancelled in the same tick, "
    "tasks mid-callback; non-trivial = a spawner still had work or a callback was in progress at call time; distinct by signature",
    lambda s: s.get("C08.hist.pending_spawner", 0) > 0 or s.get("C08.hist.mid_callback", 0) > 0,
    6000, 120000,
    floors={"C08.returned": 2000, "C08.hist.pending_spawner": 200, "C08.hist.mid_callback": 30, "C08.closed_rejects": 2000},
))

reg(C09Check(
    "C09", P(w={"reject": 12, "lock": 4, "unlock": 4, "gac": 1.5, "apply": 5, "map": 5, "start": 5, "set_size": 3, "ctor_neg": 0.7, "open": 3}, named=0.6, final_gac=0.7,
             size_track=True, gate=0.45),
    "random histories in which every spawning method is called with each rejection cause and combinations (locked, closed, five kinds of non-coroutine functions, "
    "num_concurrent<1, duplicate live name, negative pool size on constructor and setter incl. over-subscribed pools) on idle/busy/closed/closed-then-unlocked pools, "
    "with a public-state snapshot around every rejected call; family 'notrace' re-runs each scenario with the rejected requests left out and demands an identical event log "
    "(generated group names, task ids, iteration and handle stamps included); "
    "non-trivial = the pool was busy at rejection time; distinct by signature",
    lambda s: s.get("C09.reject_busy", 0) > 0,
    6000, 120000,
    floors={"C09.reject": 5000, "C09.reject_busy": 500, "C09.multi_cause": 200, "C09.accept_after_unlock": 300,
            "C09.cause.pool_size.ValueError": 100, "C09.cause.ctor.ValueError": 50, "C09.notrace_compared": 500},
))

reg(PoolCheck(
    "C10", P(w={"apply": 9, "map": 9, "start": 9, "cancel_group": 5, "reject": 1, "burst": 1.5}, named=0.6),
    "random histories of named/unnamed requests, group cancellations and name re-use (incl. user names imitating generated ones); "
    "non-trivial = three or more live groups were compared at an idle point; distinct by signature",
    lambda s: s.get("C10.three_live_groups", 0) > 0,
    6000, 120000,
    floors={"C10.group_checks": 10000, "C10.generated_names": 5000, "name_reused": 100, "C10.three_live_groups": 1000},
))

reg(PoolCheck(
    "C11", P(npools=[1, 2, 2, 3], w={"flush": 4, "cancel": 4, "reject": 0}, cb=0.7),
    "random histories with 1-3 pools of both classes (named/unnamed/same-named) in one loop, flushes and cancellations between spawns; "
    "non-trivial = at least two callbacks compared their id with the task name; distinct by signature",
    lambda s: s.get("C03.cb_state_checks", 0) >= 2,
    6000, 120000,
    floors={"C03.cb_state_checks": 8000, "C11.unnamed_pools": 1000},
))

reg(C12Check(
    "C12", P(fault=0.35, callraise=0.25, bad_elems=0.3, w={"flush": 5, "gac": 1, "reject": 0, "probe": 1, "set_size": 1.0}, cb=0.7, sizes=[1, 1, 2, 2, 3, None]),
    "random fault plans: raising bodies, raising call sites, raising plain/async end and cancel callbacks among healthy work on small pools, "
    "with flush()/gather_and_close() in both return_exceptions modes and a capacity probe at the end; family 'twin' re-runs each scenario with every injected "
    "body/callback failure replaced by success at the same point and demands an identical event log (iteration and handle stamps included); non-trivial = an injected exception was raised "
    "and flush/gather_and_close observed it; distinct by signature",
    lambda s: s.get("end.raise", 0) > 0 and (s.get("C12.flush_raised_injected") or s.get("C12.gac_raised_injected") or s.get("C12.flush_rex_ok")),
    6000, 120000, level="fault_enumeration",
    floors={"C12.flush_raised_injected": 100, "C12.flush_rex_ok": 300, "end.raise": 3000, "C12.capacity_ok_after_faults": 500, "C12.others_complete_ok": 500, "C12.twin_compared": 500},
))

reg(C13Check(
    "C13", P(w={"flush": 10, "cancel": 5, "open": 8, "intruder": 4, "reject": 0, "combo": 3}, cb=0.85, cb_async=0.7, cb_gate=0.5, gate=0.4, iflush=0.2),
    "random scenarios with 1-3 overlapping flush() calls while tasks end, are cancelled and sit in gated async callbacks; "
    "non-trivial = a flush was suspended while a callback was in progress; distinct by signature",
    lambda s: s.get("C13.flush_overlap_cb", 0) > 0 or s.get("C13.flush_suspended", 0) > 0,
    6000, 120000,
    floors={"C13.flush_returned": 4000, "C13.flush_overlap_cb": 150, "C13.forgotten_probe": 5000, "C13.server.kept": 20, "C13.server.flush_answered": 20, "flush_abandoned": 50, "flush_inline": 500, "flush_inline_abandoned_by_cancel": 20},
))

reg(PoolCheck(
    "C14", P(cls=["S"], npools=[1, 1, 2], w={"start": 10, "stop": 12, "cancel": 5, "open": 6, "apply": 0, "map": 0, "cancel_group": 1, "cancel_all": 0.3, "reject": 0, "gac": 0.8}, fault=0.2, final_gac=0.3),
    "random SimpleTaskPool histories of start/stop/stop_all/cancel(id)/finish that leave gaps in the running ids, n from -1..5; "
    "non-trivial = stop() was called while the running ids had gaps; distinct by signature",
    lambda s: s.get("C14.gaps", 0) > 0,
    6000, 120000,
    floors={"C14.stop_calls": 4000, "C14.gaps": 500, "C14.nonpositive": 300, "C14.more_than_running": 300},
))


reg(C15Check(
    "C15", P(sizes=[0, 1, 2, 3, 5, None], size_track=True, cls=["T", "S"], npools=[1],
             w={"set_size": 10, "apply": 8, "start": 8, "map": 0, "open": 8, "idle": 6, "cancel": 2, "stop": 2, "cancel_group": 1, "cancel_all": 0.3,
                "flush": 2.5, "gac": 0, "reject": 0, "probe": 0, "lock": 0.3, "unlock": 0.3, "intruder": 1, "combo": 3},
             gate=0.6, final_gac=0.3, inner_ops=0.05, self_cancel_no_suspend=0.0, abandon=0.4, cb=0.6, cb_async=0.7, cb_gate=0.4),
    "random histories of pool_size assignments (old/new over {0,1,2,3,5,unbounded}, negative values) at every occupancy 0..old with 0..n invocations waiting for room, "
    "gated workers; pool_size is read at every handle boundary and user-code point; non-trivial = an assignment happened while tasks were running or waiting; distinct by signature",
    lambda s: any(k.endswith(".busy") or k.endswith(".waiting") for k in s if k.startswith("C15.assign")),
    6000, 120000,
    floors={"C15.assign.grow.waiting": 300, "C15.assign.shrink.busy": 300, "C15.assign.below_running": 100, "C15.negative": 300,
            "C15.reports_checked.busy": 20000, "C15.begin_after_assign": 1000, "C15.idle_with_waiting": 500, "C15.session_pool_size_commands": 500},
))


def get(cid):
    if cid not in CHECKS:
        from . import checks_more  # noqa: F401  (registers C16.. on import)
    return CHECKS[cid]
