"""C17: a command does exactly what the method call would do (translation validation by differential execution)."""

from __future__ import annotations

import ast
import asyncio
import inspect
import random
from collections import Counter

from . import targets
from .snap import snapshot
from .control import ControlWorld, gen_command, public_members


def gen_scenario(rng):
    return {"cls": rng.choice(["T", "T", "S", "XT", "XS"]), "size": rng.choice([None, None, 1, 2, 3]), "seed": rng.getrandbits(48),
            "n": rng.randint(5, 30) if rng.random() > 0.08 else rng.randint(80, 150), "sfunc": rng.choice(["work", "work", "block", "fail"]), "width": rng.choice([80, 80, 60, 200]),
            "noise": rng.random() < 0.5, "decoy": rng.random() < 0.3}


class World(ControlWorld):
    def __init__(self, mods, sc):
        super().__init__(mods)
        self.sc = sc
        self.programs = 0
        self.triggers = set()

    def violate(self, clause, msg):
        prop = self.sc.get("as_prop")
        if prop == "C15":
            # the C15 'session' family: the size is read and assigned through control commands
            clause = "C15.reports" if "pool-size" in msg or "pool_size" in msg else "C15.no_admission_above"
        elif prop == "C09":
            # the C09 'session' family: requests with rejection causes (num_concurrent < 1, duplicate names, a function that is
            # no coroutine function, a locked pool) sent as commands must be refused / accepted exactly like the direct calls
            clause = "C09.via_command"
        elif prop == "C06":
            # the C06 'session' family: cancel(ids) issued as a command must reach exactly the named tasks of *this* pool
            clause = "C06.via_command"
        super().violate(clause, msg)

    def make_pool(self):
        P = self.mods.pool
        kw = {} if self.sc["size"] is None else {"pool_size": self.sc["size"]}
        if self.sc["cls"] == "T":
            return P.TaskPool(name="twin", **kw)
        if self.sc["cls"] == "XT":
            from . import extpools

            return extpools.ExtTaskPool(name="twin", **kw)
        cls = P.SimpleTaskPool
        if self.sc["cls"] == "XS":
            from . import extpools

            cls = extpools.ExtSimpleTaskPool
        return cls(getattr(targets, self.sc["sfunc"]), args=(1, 2), kwargs={"k": 3}, name="twin",
                                end_callback=targets.ecb, cancel_callback=targets.ccb, **kw)

    async def direct(self, twin, cmd):
        """The same operation as a plain method call / property access on the twin pool."""
        tok = targets.side.set("twin")
        try:
            if cmd.kind == "prop":
                try:
                    if cmd.is_set:
                        setattr(twin, cmd.name, cmd.setval)
                        return ("ret", None)
                    return ("ret", getattr(twin, cmd.name))
                except Exception as e:  # noqa: BLE001
                    return ("exc", e)
            meth = getattr(twin, cmd.name)
            try:
                r = meth(*cmd.pos, **cmd.kw)
            except Exception as e:  # noqa: BLE001
                return ("exc", e)
            if inspect.isawaitable(r):
                fut = asyncio.ensure_future(r)
                return ("fut", fut)
            return ("ret", r)
        finally:
            targets.side.reset(tok)

    def expected_reply(self, outcome):
        kind, v = outcome
        if kind == "exc":
            return str(v), None
        if v is None:
            return "ok", None
        if isinstance(v, (set, frozenset)):
            return None, set(v)
        return str(v), None

    async def _main(self):
        rng = random.Random(self.sc["seed"])
        served, twin = self.make_pool(), self.make_pool()
        cls = type(served)
        s = await self.open(served, self.sc["width"], handshake_clause="C17.reply")
        if s.handshake_exc is not None:
            return
        closed = False
        decoy = None
        if self.sc.get("decoy"):
            # a second served pool of the same class in the same process: it is sent the same lines first
            decoy = await self.open(self.make_pool(), self.sc["width"], handshake_clause="C17.reply", side="decoy")
            if decoy.handshake_exc is not None:
                decoy = None
        noise = None
        if self.sc.get("noise"):
            # a second client of the same width on the same pool that only ever sends help requests and ill-formed lines
            noise = await self.open(served, self.sc["width"], handshake_clause="C17.reply")
            if noise.handshake_exc is not None:
                noise = None
        for step in range(self.sc["n"]):
            avoid = set()
            if not closed:
                avoid.add("until_closed")
            cmd = gen_command(cls, rng, avoid=avoid, only=self.sc.get("only"))
            if cmd.name in ("gather_and_close", "flush"):
                if cmd.name == "gather_and_close" and step < self.sc["n"] - 3 and rng.random() < 0.7:
                    continue
                targets.release_event().set()
                await self.idle()
            self.programs += 1
            if noise is not None and rng.random() < 0.4:
                from .c18 import invalid_line

                nl = rng.choice([invalid_line(cls, rng, None), rng.choice(["-h", "cancel -h", "pool-size -h", "lock --help"])])
                before_noise = snapshot(served)
                await self.send(noise, nl)
                if snapshot(served) != before_noise:
                    self.violate("C17.state", f"the ill-formed line {nl!r} of another session changed the pool")
                self.sit["C17.noise_lines"] += 1
                s.new_writes()
            if "vf.lazy." in cmd.line:
                from .control import set_import_state

                depth = rng.randrange(5)
                set_import_state(depth)
                self.sit[f"C17.lazy_path.preimported_{depth}"] += 1
            if decoy is not None and cmd.name not in ("gather_and_close", "until_closed") and rng.random() < 0.6:
                await self.send(decoy, cmd.line)
                self.sit["C17.decoy_lines"] += 1
                s.new_writes()
            got = await self.send(s, cmd.line)
            outcome = await self.direct(twin, cmd)
            await self.idle()
            if outcome[0] == "fut":
                fut = outcome[1]
                if not fut.done():
                    # the direct call waits (e.g. spawners blocked by pool size 0): the command must wait as well
                    if got:
                        self.violate("C17.reply", f"{cmd.line!r} was answered {got[0][:60]!r} although the direct call is still waiting")
                    self.sit["C17.both_wait"] += 1
                    fut.cancel()
                    return
                outcome = ("exc", fut.exception()) if fut.exception() is not None else ("ret", fut.result())
                got += s.new_writes()
            self.note(repr(cmd.line), "->", [g[:100] for g in got], "| direct:", outcome[0], repr(outcome[1])[:80])
            self.sit["C17.cmd." + cmd.name] += 1
            nopts = len(cmd.kw)
            self.sit[f"C17.options.{min(nopts, 3)}"] += 1
            if s.task.done():
                self.violate("C17.reply", f"the session ended on {cmd.line!r}")
                return
            if len(got) != 1:
                self.violate("C17.reply", f"{len(got)} replies to {cmd.line!r}")
                return
            reply = got[0].decode()
            want, want_set = self.expected_reply(outcome)
            ok = True
            if want_set is not None:
                try:
                    val = set() if reply.strip() == "set()" else ast.literal_eval(reply.strip())
                    ok = val == want_set
                except Exception:  # noqa: BLE001
                    ok = False
                want = str(want_set)
            else:
                ok = reply == want + "\n"
            if not ok:
                if cmd.kind == "prop" and cmd.is_set and outcome[0] == "exc":
                    self.triggers.add("T.setter_raises")
                self.violate("C17.reply", f"{cmd.line!r}: reply {reply[:120]!r}, the direct call gives {want[:120]!r} ({outcome[0]})")
            else:
                self.sit["C17.reply_ok." + outcome[0]] += 1
                self.disagreements_checked += 1
            a, b = snapshot(served), snapshot(twin)
            if a != b:
                self.violate("C17.state", f"after {cmd.line!r}: served pool {a} != twin pool {b}")
                return
            ca = Counter(c[1:] for c in targets.calls if c[0] == "served")
            cb = Counter(c[1:] for c in targets.calls if c[0] == "twin")
            if ca != cb:
                self.violate("C17.invocations", f"after {cmd.line!r}: invocations differ: served-only {dict(ca - cb)}, twin-only {dict(cb - ca)}")
                return
            self.sit["C17.state_ok"] += 1
            if cmd.name == "gather_and_close" and outcome == ("ret", None):
                closed = True
        targets.release_event().set()
        await self.idle()
        s.reader.feed_eof()
        await self.idle()

    disagreements_checked = 0
