"""C19: control server lifecycle over real TCP / Unix sockets, raw stream clients and the bundled CLI client."""

from __future__ import annotations

import asyncio
import json
import os
import random
import shutil
import socket
import struct
import sys
import tempfile
import time
from collections import Counter

from . import targets
from .snap import snapshot
from .loop import new_loop

WATCHDOG = 60.0
_SERIAL = 0
PROBES = {"num-running": "num_running", "is-locked": "is_locked", "num-ended": "num_ended", "pool-size": "pool_size", "is-full": "is_full",
          "num-cancelled": "num_cancelled"}


class Inconclusive(Exception):
    pass


class FrozenLoop(KeyboardInterrupt):
    """Raised by the SIGALRM watchdog into whatever code is spinning without ever yielding to the event loop."""


class Client:
    def __init__(self, idx):
        self.idx = idx
        self.reader = None
        self.writer = None
        self.inbox = b""
        self.eof = False
        self.pump = None
        self.parked = False
        self.open = False

    async def _pump(self):
        try:
            while True:
                d = await self.reader.read(65536)
                if not d:
                    self.eof = True
                    return
                self.inbox += d
        except (ConnectionError, OSError):
            self.eof = True

    def take(self):
        d, self.inbox = self.inbox, b""
        return d


def gen_order(rng, base=0, earlier=(), leave=0.8):
    """One serving period: the actions of clients base..base+n-1 merged in a random order, with the stop somewhere."""
    n = rng.choice([0, 1, 1, 2, 2, 3, 4]) if rng.random() > 0.06 else rng.randint(8, 12)  # occasionally many clients one after the other
    per = []
    for c in range(base, base + n):
        acts = [("connect", c)] if rng.random() < 0.65 else [("open", c), ("hello", c)]
        parked = False
        for _ in range(rng.randint(0, 4)):
            x = rng.random()
            if x < 0.5:
                acts.append(("probe", c, rng.choice(list(PROBES))))
            elif x < 0.7:
                acts.append(("cmd", c, rng.choice(["lock", "unlock", "cancel-all", "flush", "get-group-ids", "num-cancelled", "zzz", "-h", "pool-size 7", "pool-size abc", "SPAWN", "SPAWN"])))
            elif x < 0.76 and not parked:
                acts.append(("park", c))
                parked = True
                break
        if rng.random() < leave:
            acts.append(("disc", c, rng.choice(["close", "close", "eof", "abort"])))
        per.append(acts)
    if rng.random() < 0.3:
        per.append([("blank", base + n, rng.choice(["\n", "  \n", "\r\n", ""]), rng.choice(["close", "eof"]))])
        n += 1
    for c in earlier:
        # clients of an earlier serving period that may still be connected: a probe and / or their departure
        acts = []
        if rng.random() < 0.5:
            acts.append(("probe", c, rng.choice(list(PROBES))))
        if rng.random() < 0.7:
            acts.append(("disc", c, rng.choice(["close", "eof", "abort"])))
        if acts:
            per.append(acts)
    # merge preserving per-client order
    order = []
    idx = [0] * len(per)
    while True:
        live = [c for c in range(len(per)) if idx[c] < len(per[c])]
        if not live:
            break
        c = rng.choice(live)
        order.append(per[c][idx[c]])
        idx[c] += 1
    return order, n


def gen_scenario(rng):
    if rng.random() < 0.06:
        # the stop comes at once: the task that serve_forever() returned is cancelled before it has taken a single step
        return {"transport": rng.choice(["tcp", "unix"]), "cls": rng.choice(["T", "S"]), "order": [], "nclients": 0, "stop_at_once": True}
    transport = rng.choice(["tcp", "unix"])
    again = rng.random() < 0.35
    order, n = gen_order(rng, leave=0.4 if again else 0.8)
    if rng.random() < 0.85:
        order.insert(rng.randint(0, len(order)), ("stop",))
    sc = {"transport": transport, "cls": rng.choice(["T", "S"]), "order": order, "nclients": n}
    if transport == "unix" and rng.random() < 0.35:
        sc["stale"] = "socket"  # something already sits at the socket path (left by a crashed earlier run)
    if rng.random() < 0.22:
        lines = [rng.choice(["num-running", "num-ended", "is-full", "Num-Running", "  is-locked  ", "num-cancelled"]) for _ in range(rng.randint(0, 3))]
        sc["cli"] = {"lines": lines, "end": rng.choice(["exit", "eof", "EXIT", "Exit", "  exit ", "eXiT"]), "at": rng.randint(0, len(order))}
    if again:
        # the same server object is stopped and asked to serve again, once or twice; clients of an earlier period may
        # still be connected (then the earlier serving task is still pending) or long gone
        rounds = [order]
        if ("stop",) not in order:
            order.insert(rng.randint(0, len(order)), ("stop",))
        for _ in range(rng.choice([1, 1, 2])):
            o, k = gen_order(rng, base=n, earlier=list(range(n)), leave=0.6)
            n += k
            rounds.append(o)
        for o in rounds[1:-1]:
            o.insert(rng.randint(0, len(o)), ("stop",))
        if rng.random() < 0.7:
            rounds[-1].insert(rng.randint(0, len(rounds[-1])), ("stop",))
        sc["rounds"] = rounds
        sc["nclients"] = n
        sc["restart_at_once"] = rng.random() < 0.35  # the periods but the last are not stopped by the script: cancel and serve again in one go
        if sc["restart_at_once"]:
            for o in rounds[:-1]:
                while ("stop",) in o:
                    o.remove(("stop",))
            sc["order"] = rounds[0]
    return sc


class World:
    def __init__(self, mods, sc):
        self.mods = mods
        self.sc = sc
        self.viol = []
        self.sit = Counter()
        self.log = []
        self.inconclusive = None
        self.loop = None
        self.clients = {}
        self.t0 = time.monotonic()
        self.stopped = False
        self.round = 0
        self.loop_errors = []
        self.triggers = set()

    def violate(self, clause, msg):
        if len(self.viol) < 8:
            self.viol.append({"clause": clause, "msg": msg, "at": len(self.log), "triggers": sorted(self.triggers)})

    def note(self, *a):
        self.log.append(" ".join(str(x) for x in a))

    def run(self):
        loop = new_loop()
        self.loop = loop
        loop.set_exception_handler(lambda lp, ctx: self.loop_errors.append(str(ctx.get("message")) + " " + repr(ctx.get("exception"))))
        self.tmp = tempfile.mkdtemp(prefix="vfc19_")
        targets.reset()
        import signal

        last = {"handles": -1, "strikes": 0}

        def on_alarm(signum, frame):
            # logical progress check: the loop's handle counter must advance; a handler that spins without yielding
            # (e.g. on a reader at EOF) stops it.  Two strikes of 4 s each, then interrupt the spinning code.
            if loop.vf_in_handle and loop.vf_handle_no == last["handles"]:
                # still inside the very same handle as 4 s ago (an idle loop waiting in select() is not inside a handle)
                last["strikes"] += 1
                if last["strikes"] >= 2:
                    raise FrozenLoop()
            else:
                last["strikes"] = 0
            last["handles"] = loop.vf_handle_no

        old = signal.signal(signal.SIGALRM, on_alarm)
        signal.setitimer(signal.ITIMER_REAL, 4.0, 4.0)
        try:
            with asyncio.Runner(loop_factory=lambda: loop) as runner:
                try:
                    runner.run(self._main())
                except Inconclusive as e:
                    self.inconclusive = str(e)
                except FrozenLoop:
                    self.violate("C19.concurrent", "the event loop stopped making progress for 8 s: code run by the server is spinning without yielding, "
                                                   "so no client is served and the server cannot be stopped")
                finally:
                    signal.setitimer(signal.ITIMER_REAL, 0)
        except FrozenLoop:
            self.violate("C19.concurrent", "the event loop stopped making progress (during shutdown of the run)")
        finally:
            signal.setitimer(signal.ITIMER_REAL, 0)
            signal.signal(signal.SIGALRM, old)
            shutil.rmtree(self.tmp, ignore_errors=True)
        return {"viol": self.viol, "sit": dict(self.sit), "inconclusive": self.inconclusive}

    def gone(self, cl):
        """Has the serving period this client connected in been stopped?"""
        return self.stopped or cl.round < self.round

    async def settle(self, need=6):
        """Socket quiescence: consecutive 1 ms ticks in which only the ticker ran and nothing is readable."""
        lp = self.loop
        quiet = 0
        while quiet < need:
            if time.monotonic() - self.t0 > WATCHDOG:
                raise Inconclusive("wall-clock watchdog fired while waiting for socket quiescence")
            n0 = lp.vf_handle_no
            await asyncio.sleep(0.001)
            ran = lp.vf_handle_no - n0
            try:
                ready = lp._selector.select(0)
            except Exception:  # noqa: BLE001
                ready = []
            if ran <= 2 and not ready and not lp._ready:
                quiet += 1
            else:
                quiet = 0

    async def connect(self, c, hello=True):
        cl = Client(c)
        self.clients[c] = cl
        try:
            if self.sc["transport"] == "tcp":
                cl.reader, cl.writer = await asyncio.wait_for(asyncio.open_connection("127.0.0.1", self.port), 10)
            else:
                cl.reader, cl.writer = await asyncio.wait_for(asyncio.open_unix_connection(self.path), 10)
        except (ConnectionError, FileNotFoundError, OSError) as e:
            self.note("connect", c, "refused", type(e).__name__)
            if not self.stopped:
                self.violate("C19.concurrent", f"client {c} could not connect to a serving server: {type(e).__name__}: {e}")
            else:
                self.sit["C19.connect_after_stop_refused"] += 1
            return None
        if self.stopped:
            # the listening socket may linger in the accept queue only if the server did not close it
            pass
        cl.pump = asyncio.ensure_future(cl._pump())
        cl.connected_after_stop = self.stopped
        cl.round = self.round
        if not hello:
            cl.pending_hello = True
            self.sit["C19.deferred_handshake"] += 1
            await self.settle()
            return cl
        return await self.hello(cl)

    async def hello(self, cl):
        c = cl.idx
        cl.pending_hello = False
        cl.open = True
        others_pending = sum(1 for o in self.clients.values() if getattr(o, "pending_hello", False))
        width = 80 if c % 2 == 0 else 20 + (37 * (c + len(self.sc["order"]))) % 200
        cl.writer.write(json.dumps({"terminal_width": width}).encode() + b"\n")
        await self.settle()
        got = cl.take()
        self.sit["C19.handshake_width." + ("80" if width == 80 else "other")] += 1
        if others_pending:
            self.sit["C19.handshake_while_other_pending"] += 1
        self.note("connect", c, got)
        if self.stopped:
            if got:
                self.violate("C19.closed_after", f"a connection made after the stop was served: {got!r}")
            return cl
        if got != str(self.pool).encode() + b"\n":
            self.violate("C19.concurrent", f"client {c}: handshake reply {got!r}, expected {str(self.pool)!r}")
            cl.open = False
        else:
            self.sit["C19.handshakes"] += 1
        return cl

    async def command(self, cl, line):
        cl.writer.write(line.encode() + b"\n")
        await self.settle()
        return cl.take()

    async def disconnect(self, cl, kind):
        if cl is None or cl.writer is None:
            return
        w = cl.writer
        try:
            if kind == "eof" and w.can_write_eof():
                w.write_eof()
                await self.settle()
                w.close()
            elif kind == "abort":
                sock = w.get_extra_info("socket")
                try:
                    if sock is not None and sock.family != socket.AF_UNIX:
                        sock.setsockopt(socket.SOL_SOCKET, socket.SO_LINGER, struct.pack("ii", 1, 0))
                except OSError:
                    pass
                w.transport.abort()
            else:
                w.close()
        except Exception as e:  # noqa: BLE001
            self.note("disconnect error", type(e).__name__, e)
        if cl.parked:
            # the session is inside a waiting command (until-closed) and will not notice that its client left
            self.triggers.add("T.parked_client_left")
            self.sit["C19.parked_client_left"] += 1
        cl.open = False
        cl.parked = False
        await self.settle()
        self.sit["C19.disconnect." + kind] += 1

    async def cli_client(self, spec):
        env = dict(os.environ)
        env["PYTHONPATH"] = self.mods.src
        env["COLUMNS"] = "80"
        if self.sc["transport"] == "tcp":
            args = ["tcp", "127.0.0.1", str(self.port)]
        else:
            args = ["unix", self.path]
        text = "".join(ln + "\n" for ln in spec["lines"])
        if spec["end"] != "eof":
            # the exit command in some spelling; whatever is typed after it must never reach the server
            text += spec["end"] + "\nlock\nzzz-after-exit\n"
        exp = []
        for ln in spec["lines"]:
            key = ln.strip().lower()
            exp.append(key)
        proc = await asyncio.create_subprocess_exec(sys.executable, "-m", "asyncio_taskpool.control", *args,
                                                    stdin=asyncio.subprocess.PIPE, stdout=asyncio.subprocess.PIPE, stderr=asyncio.subprocess.PIPE, env=env)
        try:
            out, err = await asyncio.wait_for(proc.communicate(text.encode()), 40)
        except asyncio.TimeoutError:
            proc.kill()
            raise Inconclusive("CLI client subprocess did not finish within 40 s") from None
        return proc.returncode, out.decode(errors="replace"), err.decode(errors="replace"), exp

    def expected_reply(self, key):
        if key in PROBES:
            return str(getattr(self.pool, PROBES[key]))
        if key in ("lock", "unlock"):
            return "ok"
        return None

    async def _main(self):
        self.serving_task = None
        try:
            await self._main2()
        finally:
            # never leave a task behind that the runner could not cancel in one go
            for t in list(getattr(self, "serving_tasks", ())) + [self.serving_task]:
                for _ in range(6):
                    if t is None or t.done():
                        break
                    t.cancel()
                    await asyncio.sleep(0.005)
            for cl in self.clients.values():
                if cl.pump is not None:
                    cl.pump.cancel()
                if cl.writer is not None:
                    try:
                        cl.writer.transport.abort()
                    except Exception:  # noqa: BLE001
                        pass

    async def start_server(self, clause="C19.returns_task"):
        """Create the pool and the real control server, await serve_forever(); -> (server, serving task) or None."""
        P, S = self.mods.pool, self.mods.server
        sc = self.sc
        global _SERIAL
        _SERIAL += 1
        pname = f"served-{os.getpid()}-{_SERIAL}"  # unique, so that a foreign server on a recycled port can be told apart
        self.pool = P.TaskPool(name=pname) if sc["cls"] == "T" else P.SimpleTaskPool(targets.work, name=pname)
        if sc["transport"] == "tcp":
            probe = socket.socket()
            probe.bind(("127.0.0.1", 0))
            self.port = probe.getsockname()[1]
            probe.close()
            srv = S.TCPControlServer(self.pool, host="127.0.0.1", port=self.port)
        else:
            self.path = os.path.join(self.tmp, "ctl.sock")
            if sc.get("stale") == "socket":
                old = socket.socket(socket.AF_UNIX)
                old.bind(self.path)
                old.close()  # the file stays: a dead socket
                self.sit["C19.stale_socket_file"] += 1
            srv = S.UnixControlServer(self.pool, socket_path=self.path)
        if srv.is_serving():
            self.violate(clause, "is_serving() is true before serve_forever()")
        if sc.get("stop_at_once"):
            async def start_and_stop():
                t = await srv.serve_forever()
                t.cancel()  # no yield in between
                return t

            start = asyncio.ensure_future(start_and_stop())
            self.stopped = True
        else:
            start = asyncio.ensure_future(srv.serve_forever())
        await self.settle()
        if not start.done():
            self.violate(clause, "await serve_forever() had not returned at the first quiescence with zero clients")
            start.cancel()
            return None
        if start.exception() is not None:
            e = start.exception()
            import errno

            if isinstance(e, OSError) and e.errno == errno.EADDRINUSE and sc["transport"] == "tcp" and getattr(self, "_bind_retries", 0) < 5:
                # another process took the probed port in the meantime (parallel checks): harness race, try again
                self._bind_retries = getattr(self, "_bind_retries", 0) + 1
                return await self.start_server(clause)
            self.violate(clause, f"serve_forever() raised {e!r}")
            return None
        task = start.result()
        self.serving_task = task if isinstance(task, asyncio.Task) else None
        if sc.get("stop_at_once"):
            self.sit["C19.stopped_at_once." + sc["transport"]] += 1
            if not isinstance(task, asyncio.Task):
                self.violate(clause, f"serve_forever() returned {task!r} instead of a task")
                return None
            return srv, task
        if not isinstance(task, asyncio.Task) or task.done():
            self.violate(clause, f"serve_forever() returned {task!r} instead of a pending task")
            return None
        if not srv.is_serving():
            self.violate(clause, "is_serving() is false right after serve_forever() returned")
        if sc["transport"] == "unix" and not os.path.exists(self.path):
            self.violate(clause, "the unix socket file does not exist while serving")
        self.sit["C19.started." + sc["transport"]] += 1
        return srv, task

    async def restart_server(self, srv, old_task, cancel_first=False):
        """serve_forever() once more on the same server object (same address); with cancel_first the running serving task
        is cancelled and serve_forever() called again without a yield in between (a restart helper)."""
        clause = "C19.returns_task"
        overlap = not old_task.done()
        self.sit["C19.restart." + ("at_once" if cancel_first else "earlier_task_pending" if overlap else "earlier_task_done")] += 1

        async def go():
            if cancel_first:
                old_task.cancel()
            return await srv.serve_forever()

        start = asyncio.ensure_future(go())
        await self.settle()
        if not start.done():
            self.violate(clause, "serve_forever() called again on the stopped server: had not returned at the first quiescence")
            start.cancel()
            return None
        if start.exception() is not None:
            e = start.exception()
            import errno

            if isinstance(e, OSError) and e.errno == errno.EADDRINUSE and self.sc["transport"] == "tcp":
                self.sit["C19.restart_port_taken_by_other_process"] += 1  # parallel checks recycle ports: harness race
                return None
            self.violate(clause, f"serve_forever() called again on the stopped server raised {e!r}")
            return None
        task = start.result()
        if not isinstance(task, asyncio.Task) or task.done():
            self.violate(clause, f"serve_forever() called again on the stopped server returned {task!r} instead of a pending task"
                                 + (f" ({task.exception()!r})" if isinstance(task, asyncio.Task) and task.done() and not task.cancelled() else ""))
            return None
        self.serving_tasks.append(task)
        if not srv.is_serving():
            self.violate(clause, "is_serving() is false right after serve_forever() returned (served again)")
        if self.sc["transport"] == "unix" and not os.path.exists(self.path):
            self.violate(clause, "the unix socket file does not exist while serving (served again)")
        return srv, task

    async def _main2(self):
        sc = self.sc
        rounds = sc.get("rounds") or [sc["order"]]
        self.serving_tasks = []
        srv = task = None
        for ri, order in enumerate(rounds):
            self.round = ri
            if ri == 0:
                started = await self.start_server()
                if started is not None:
                    self.serving_tasks.append(started[1])
            else:
                at_once = not self.stopped and bool(sc.get("restart_at_once"))
                if not self.stopped and not at_once:
                    task.cancel()
                    self.stopped = True
                    await self.settle()
                started = await self.restart_server(srv, task, cancel_first=at_once)
                if started is None:
                    break
                self.stopped = False
            if started is None:
                return
            srv, task = started
            self.serving_task = task
            await self._round(srv, task, order, sc.get("cli") if ri == 0 else None)
        if task is not None:
            await self._finish(srv, task)

    async def _round(self, srv, task, order, cli):
        sc = self.sc
        cli_task = None
        for i, act in enumerate(order + [("end",)]):
            if cli is not None and cli["at"] == i and not self.stopped:
                before_cli = snapshot(self.pool)
                rc, out, err, exp = await self.cli_client(cli)
                self.note("cli", rc, repr(out[-300:]), repr(err[-200:]))
                self.check_cli(rc, out, err, exp)
                if cli["end"] != "eof":
                    self.sit["C19.cli_exit_command." + ("lower" if cli["end"] == "exit" else "other_spelling")] += 1
                    if "zzz-after-exit" in out or snapshot(self.pool) != before_cli:
                        self.violate("C19.cli", f"the CLI client kept sending what was typed after the exit command {cli['end']!r} "
                                                f"(pool {before_cli} -> {snapshot(self.pool)}; output tail {out[-160:]!r})")
                cli = None
            kind = act[0]
            if not self.stopped and not srv.is_serving():
                self.violate("C19.concurrent", f"is_serving() is false while the serving task is pending and not cancelled (before action {i} of serving period {self.round})")
            if kind == "end":
                break
            if kind == "stop":
                connected = sum(1 for c in self.clients.values() if c.writer is not None and not c.writer.is_closing())
                task.cancel()
                self.stopped = True
                self.sit[f"C19.stop_with_clients.{min(connected, 3)}"] += 1
                await self.settle()
                self.note("stop", "connected", connected, "task done", task.done())
                if srv.is_serving():
                    self.violate("C19.closed_after", f"is_serving() is still true after the serving task was cancelled ({connected} client(s) connected, task done: {task.done()})")
                else:
                    self.sit["C19.not_serving_right_after_stop"] += 1
                if connected == 0 and cli_task is None and not task.done():
                    self.violate("C19.stops", "serving task cancelled with no client connected, but it has not completed at quiescence")
                continue
            c = act[1]
            if kind == "connect":
                await self.connect(c)
                continue
            if kind == "open":
                await self.connect(c, hello=False)
                continue
            if kind == "blank":
                # e.g. a port probe: connects, sends a blank line (or nothing), leaves without ever shaking hands
                before = snapshot(self.pool)
                cl = await self.connect(c, hello=False)
                if cl is not None and cl.writer is not None:
                    if act[2]:
                        cl.writer.write(act[2].encode())
                    await self.settle()
                    await self.disconnect(cl, act[3])
                    self.sit["C19.blank_probe_clients"] += 1
                if snapshot(self.pool) != before:
                    self.violate("C19.disconnect_harmless", "a client that left without a handshake changed the pool")
                continue
            if kind == "hello":
                cl = self.clients.get(c)
                if cl is not None and cl.writer is not None and getattr(cl, "pending_hello", False):
                    if self.gone(cl) and not cl.connected_after_stop:
                        # connected while serving, handshake after the stop: the session may or may not still be served
                        cl.pending_hello = False
                        continue
                    await self.hello(cl)
                continue
            cl = self.clients.get(c)
            if cl is None or not cl.open or cl.parked:
                continue
            if kind == "probe":
                key = act[2]
                got = await self.command(cl, key)
                self.note("probe", c, key, got)
                if self.gone(cl) and not got:
                    # after the stop a session may finish its current command and then leave
                    self.sit["C19.probe_after_stop_unanswered"] += 1
                    continue
                want = (self.expected_reply(key) + "\n").encode()
                if got != want:
                    self.violate("C19.concurrent" if any(o.parked for o in self.clients.values()) else "C19.disconnect_harmless",
                                 f"client {c}: {key} answered {got!r}, expected {want!r} (parked clients: {sum(o.parked for o in self.clients.values())})")
                else:
                    self.sit["C19.probe_ok"] += 1
                    if any(o.parked for o in self.clients.values()):
                        self.sit["C19.probe_ok_while_parked"] += 1
            elif kind == "cmd":
                line = act[2]
                if line == "SPAWN":
                    line = "apply vf.targets.work" if sc["cls"] == "T" else "start 1"
                    self.sit["C19.spawn_cmd" + (".locked" if self.pool.is_locked else "")] += 1
                got = await self.command(cl, line)
                self.note("cmd", c, act[2], got[:60])
                if not got and not self.gone(cl):
                    self.violate("C19.concurrent", f"client {c}: no reply to {act[2]!r}")
            elif kind == "park":
                got = await self.command(cl, "until-closed")
                if got:
                    self.violate("C19.concurrent", f"until-closed answered {got!r} although the pool is open")
                cl.parked = True
                self.sit["C19.parked"] += 1
            elif kind == "disc":
                before = snapshot(self.pool)
                if cl.round < self.round and not self.stopped:
                    self.sit["C19.earlier_period_client_leaves_while_serving_again"] += 1
                await self.disconnect(cl, act[2])
                after = snapshot(self.pool)
                if before != after:
                    self.violate("C19.disconnect_harmless", f"client {c} disconnecting ({act[2]}) changed the pool: {before} -> {after}")
    async def _finish(self, srv, task):
        sc = self.sc
        # everybody leaves
        for cl in self.clients.values():
            if cl.writer is not None and not cl.writer.is_closing():
                await self.disconnect(cl, "close")
        if not self.stopped:
            task.cancel()
            self.stopped = True
            self.sit["C19.stop_with_clients.0"] += 1
        await self.settle(need=12)
        pend = [t for t in self.serving_tasks if not t.done()]
        if task is None:
            return
        if pend:
            self.violate("C19.stops", "every client has disconnected and the loop is quiescent, but the cancelled serving task has not completed"
                                      + (f" ({len(pend)} of {len(self.serving_tasks)} serving periods)" if len(self.serving_tasks) > 1 else ""))
            return
        self.sit["C19.stopped"] += 1
        if not task.cancelled() and task.exception() is not None:
            self.violate("C19.stops", f"the serving task ended with {task.exception()!r}")
        if srv.is_serving():
            self.violate("C19.closed_after", "is_serving() is still true after the serving task completed")
        if sc["transport"] == "unix" and os.path.exists(self.path):
            self.violate("C19.closed_after", "the unix socket file still exists after the serving task completed")
        try:
            if sc["transport"] == "tcp":
                r, w = await asyncio.wait_for(asyncio.open_connection("127.0.0.1", self.port), 5)
            else:
                r, w = await asyncio.wait_for(asyncio.open_unix_connection(self.path), 5)
        except (ConnectionError, FileNotFoundError, OSError):
            self.sit["C19.connect_after_stop_refused"] += 1
        else:
            # something listens there: is it our (stopped) server, or a foreign process that got the recycled port?
            w.write(json.dumps({"terminal_width": 80}).encode() + b"\n")
            try:
                got = await asyncio.wait_for(r.readline(), 5)
            except (asyncio.TimeoutError, ConnectionError, OSError):
                got = b""
            w.close()
            if got.strip() == str(self.pool).encode() or sc["transport"] == "unix":
                self.violate("C19.closed_after", "the address still accepts connections after the serving task completed")
            else:
                self.sit["C19.port_recycled_by_other_process"] += 1
        for cl in self.clients.values():
            if cl.pump is not None:
                cl.pump.cancel()
        targets.release_event().set()
        await self.settle()

    def check_cli(self, rc, out, err, exp):
        self.sit["C19.cli_runs"] += 1
        if rc != 0:
            self.violate("C19.cli", f"CLI client exit status {rc}; stderr {err[-300:]!r}")
            return
        if f"Connected to {self.pool}" not in out:
            self.violate("C19.cli", f"CLI client did not report the connection: {out[:200]!r}")
            return
        if not out.rstrip("\n").endswith("Disconnected from control server."):
            self.violate("C19.cli", f"CLI client output does not end with the disconnect message: {out[-200:]!r}")
        pos = 0
        body = out.split("available commands.", 1)[-1]
        for key in exp:
            want = self.expected_reply(key)
            if want is None:
                continue
            if key in PROBES and key in ("num-running", "num-ended", "is-full", "pool-size"):
                pass
            j = body.find("> " + want, pos)
            if j < 0 and key in ("is-locked",):
                # the lock state may have been changed by other clients meanwhile: accept either value
                j = max(body.find("> True", pos), body.find("> False", pos))
            if j < 0:
                self.violate("C19.cli", f"CLI client: reply to {key!r} ({want!r}) not found in order in {body!r}")
                return
            pos = j + 2
        self.sit["C19.cli_ok"] += 1
