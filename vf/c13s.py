"""C13 over a control server: a session's pending `flush` (and the program's own overlapping flush) while a task is inside a slow
callback, with the control server being stopped meanwhile.  flush must neither forget nor disturb that task."""

from __future__ import annotations

import asyncio
import random

from . import c19, targets


class World(c19.World):
    def violate(self, clause, msg):
        if not clause.startswith("C13."):
            clause = "C13.must_keep"
        super().violate(clause, msg)

    async def _main2(self):
        sc = self.sc
        started = await self.start_server(clause="C13.progress")
        if started is None:
            return
        srv, task = started
        pool = self.pool
        rng = random.Random(sc["seed"])
        gate = asyncio.Event()
        seen = {"enter": 0, "exit": 0, "cancelled": 0}

        async def slow_cb(task_id):
            seen["enter"] += 1
            try:
                await gate.wait()
            except asyncio.CancelledError:
                seen["cancelled"] += 1
                raise
            finally:
                seen["exit"] += 1

        which = sc["which"]
        kw = {"end_callback": slow_cb} if which == "end" else {"cancel_callback": slow_cb}
        pool.apply(targets.block if which == "cancel" else targets.work, args=(1,), **kw)
        await self.settle()
        if which == "cancel":
            try:
                pool.cancel(0)
            except Exception as e:  # noqa: BLE001
                self.note("cancel raised", type(e).__name__)
            await self.settle()
        if seen["enter"] != 1:
            self.sit["C13.server.setup_failed"] += 1
            return
        cl = await self.connect(0)
        if cl is None or not cl.open:
            return
        got = await self.command(cl, "flush" + (" -r" if sc["rex"] else ""))
        if got:
            self.violate("C13.must_keep", f"flush through the control session was answered {got!r} while the task is still inside its callback")
        own = asyncio.ensure_future(pool.flush(True)) if sc["own_flush"] else None
        await self.settle()
        if sc["stop"]:
            task.cancel()
            self.stopped = True
            await self.settle()
        probe = "AlreadyEnded" if which == "end" else "AlreadyCancelled"
        try:
            pool.cancel(0)
            state = "ok"
        except Exception as e:  # noqa: BLE001
            state = type(e).__name__
        if seen["cancelled"] or seen["exit"]:
            self.violate("C13.must_keep", f"the {which} callback of task 0 was disturbed while flush calls were pending (cancelled={seen['cancelled']}, exited={seen['exit']}, server stopped={sc['stop']})")
        elif state != probe:
            self.violate("C13.must_keep", f"task 0 is inside its {which} callback but cancel(0) -> {state} (expected {probe}) with pending flush calls, server stopped={sc['stop']}")
        elif own is not None and own.done():
            self.violate("C13.must_keep", "the program's own flush() returned while the task it gathers is still inside its callback")
        else:
            self.sit["C13.server.kept"] += 1
        gate.set()
        await self.settle()
        if seen["exit"] != 1 or seen["cancelled"]:
            self.violate("C13.must_keep", f"after the gate was opened the callback finished {seen['exit']} times, cancelled {seen['cancelled']}")
        if own is not None and not own.done():
            self.violate("C13.progress", "the program's own flush() did not return after the callback finished")
        reply = cl.take()
        if reply != b"ok\n":
            self.violate("C13.progress", f"the session's flush was answered {reply!r} after the callback finished (server stopped={sc['stop']})")
        else:
            self.sit["C13.server.flush_answered"] += 1
        await self.disconnect(cl, "close")
        if not self.stopped:
            task.cancel()
            self.stopped = True
        targets.release_event().set()
        await self.settle()


def gen_case(rng):
    return {"server_flush": True, "transport": rng.choice(["tcp", "unix"]), "cls": "T", "order": [], "nclients": 1, "seed": rng.getrandbits(32),
            "which": rng.choice(["end", "cancel"]), "rex": rng.random() < 0.5, "own_flush": rng.random() < 0.6, "stop": rng.random() < 0.7}
