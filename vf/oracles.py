"""Oracles: online checks at hooks, checks at quiescence, offline checks at the end."""

from __future__ import annotations

import asyncio
import re
from asyncio import CancelledError

MAPKINDS = ("map", "starmap", "doublestarmap")
ORDER_RE = re.compile(
    r"^(begin (cancel_seen )*finish:(return|raise|cancelled) )?(cancel_seen )*(ccb_enter (cancel_seen )*ccb_exit )?(ecb_enter (cancel_seen )*ecb_exit )?(complete )?$"
)


class OracleMixin:
    # ------------------------------------------------------------ online hooks
    def on_new_id(self, pr, tid):
        if tid < 0:
            self.violate("C11.dense", f"negative task id {tid}")
        if pr.size_changed:
            # admission of a new task after pool_size was assigned
            if self.loop.vf_iteration <= pr.size_set_iter + 1:
                # room handed to a waiting spawner before the assignment materialises one iteration later
                self.sit["C15.admission_in_grace"] += 1
            elif pr.A >= pr.cap():
                self.violate("C15.no_admission_above", f"task {tid} admitted to pool {pr.idx} (size now {pr.size}) while {pr.A} admitted tasks have not finished")
            else:
                self.sit["C15.begin_after_assign"] += 1

    def elem_index(self, req, args, kwargs):
        try:
            if req.kind == "map":
                (x,) = args
                i = next(j for j, e in enumerate(req.elements) if e is x)
                ok = not kwargs
            elif req.kind == "starmap":
                base, i = args
                ok = base is req.elements[i][0] and not kwargs
            else:
                i = kwargs["i"]
                ok = not args and set(kwargs) == {"a", "i"} and kwargs["a"] is req.elements[i]["a"]
            return i, ok
        except Exception:  # noqa: BLE001
            return None, False

    def on_invoke(self, req, inv):
        pr = req.pool
        if req.kind != "sfunc":
            if not req.accepted and getattr(req, "rejected", False):
                self.violate("C09.no_trace", f"func of rejected request {req.idx} was called")
            if req.cancelled_at is not None:
                self.violate("C07.no_start_after", f"request {req.idx} ({req.group}): func called after its group was cancelled")
        if pr.closed:
            self.violate("C08.nothing_after", f"func of request {req.idx} called after gather_and_close returned")
        if req.kind in ("apply", "probe", "sfunc"):
            a, kw = req.args_obj, (req.kwargs_obj or {})
            if len(inv.args) != len(a) or any(x is not y for x, y in zip(inv.args, a)) or inv.kwargs != kw or any(inv.kwargs[k] is not kw[k] for k in kw):
                self.violate("C04.args", f"request {req.idx} invocation {inv.k}: got args={inv.args} kwargs={inv.kwargs}, given {a} {kw}")
            if req.kind != "sfunc" and inv.k >= req.n:
                self.violate("C04.count", f"request {req.idx}: invocation #{inv.k + 1} but num={req.n}")
            if req.kind == "sfunc":
                tot = sum(rq.n for rq in pr.reqs if rq.kind == "start" and rq.accepted)
                if inv.k >= tot:
                    self.violate("C04.count", f"pool {pr.idx}: invocation #{inv.k + 1} but only {tot} were requested by start()")
        else:
            if req.empties and not inv.args and not inv.kwargs:
                # an empty element: func() - identified by its position in the element order
                prev = [v.elem for v in req.invs[:-1] if v.elem is not None]
                i = (prev[-1] if prev else -1) + 1
                while i in req.bad:
                    i += 1
                ok = i in req.empties
                self.sit["C05.empty_element"] += 1
            else:
                i, ok = self.elem_index(req, inv.args, inv.kwargs)
            inv.elem = i
            if not ok:
                self.violate("C05.unpack", f"{req.kind} request {req.idx}: func received args={inv.args} kwargs={inv.kwargs}")
                return
            prev = [v.elem for v in req.invs[:-1] if v.elem is not None]
            last = prev[-1] if prev else -1
            exp = last + 1
            if req.kind != "map":
                while exp in req.bad:
                    exp += 1
            if i != exp:
                self.violate("C05.once_in_order", f"{req.kind} request {req.idx}: element {i} invoked, expected element {exp} next (invoked so far {prev})")
            if req.kind == "map" and i in req.bad:
                inv.raised = True
                req.skipped += 1

    def on_pull(self, req, i):
        pr = req.pool
        if getattr(req, "rejected", False):
            self.violate("C09.no_trace", f"iterable of rejected request {req.idx} was advanced")
            return
        if req.cancelled_at is not None:
            self.violate("C07.no_pull_after", f"request {req.idx} ({req.group}): iterable advanced after its group was cancelled")
        if pr.closed:
            self.violate("C08.nothing_after", f"iterable of request {req.idx} advanced after gather_and_close returned")
        if i < req.n and req.group is not None and req.group in pr.live_groups:
            try:
                created = len(pr.obj.get_group_ids(req.group))
            except Exception:  # noqa: BLE001
                return
            made = created + req.skipped
            if made < i:
                self.violate("C05.lazy", f"request {req.idx}: pulling element {i} while only {created} tasks created + {req.skipped} skipped")
            elif made == i:
                self.sit["C05.lazy_tight"] += 1

    def on_begin(self, pr, req, t, inv):
        if t.begun:
            self.violate("C11.unique", f"task id {t.tid} of pool {pr.idx} seen by two invocations")
        if not pr.size_changed and pr.L >= pr.cap():
            self.violate("C01.begin_bound", f"worker begins in pool {pr.idx} (size {pr.size}) while {pr.L} are already live")
        if pr.size is not None and pr.L == pr.size - 1:
            self.sit["C01.begin_at_last_slot"] += 1
        rq = t.req if t.req is not None else req
        if rq.kind in MAPKINDS:
            if rq.live >= rq.nc:
                self.violate("C05.nc_bound", f"request {rq.idx}: task begins while {rq.live} of num_concurrent={rq.nc} are live")
            if rq.live == rq.nc - 1:
                self.sit["C05.begin_at_nc"] += 1
        if pr.closed:
            self.violate("C08.nothing_after", f"task {t.tid} begins after gather_and_close returned")
        if t.unbegun_cancelled:
            self.delivery_violation(t, f"task {t.tid} was cancelled before its first step and begins anyway")
        elif rq.kind != "sfunc" and rq.cancelled_at is not None and rq.kind != "start":
            self.violate("C07.no_start_after", f"task {t.tid} of cancelled group {rq.group} begins")
        if t.claim is not None and req.kind != "sfunc" and t.claim is not req:
            self.violate("C10.group_ids", f"task {t.tid} runs an invocation of request {req.idx} but is listed in group {t.claim.group}")

    def delivery_violation(self, t, msg):
        """A requested cancellation was not (exactly) delivered: blame every route that asked for it."""
        self.violate("C06.deliveries", msg)
        if "group" in t.vias:
            self.violate("C07.members_cancelled", msg + " (requested by a group cancellation)")
        if "stop" in t.vias:
            self.violate("C14.targets", msg + " (requested by stop())")
        if "in_flush" in t.vias:
            self.violate("C13.running_cancellable", msg + " (the task was awaiting flush() of its pool: flush must not make a running task uncancellable)")

    def on_finish(self, pr, t):
        self.sit["end." + t.outcome] += 1

    def on_cancel_seen(self, t, where):
        if t.seen > t.owed and where == "cb" and t.extra_ok > 0:
            t.extra_ok -= 1
            t.owed += 1
            self.sit["cancel_seen_in_cb_after_abandoned_flush"] += 1
        if t.seen > t.owed:
            self.violate("C06.bystander", f"task {t.tid} observed a CancelledError ({where}) it was not owed (seen {t.seen}, owed {t.owed})")
            if where == "cb":
                # "plain and coroutine callbacks are both run to completion": a cancellation nobody owes this task lands inside its callback
                self.violate("C03.cb_undisturbed", f"a callback of task {t.tid} was hit by a CancelledError the task was not owed (seen {t.seen}, owed {t.owed})")
            if t.pool.group_cancels:
                self.violate("C07.siblings", f"task {t.tid} observed a CancelledError ({where}) it was not owed, in a pool where groups were cancelled")
            if t.pool.stop_calls:
                self.violate("C14.targets", f"task {t.tid} observed a CancelledError ({where}) it was not owed, in a pool where stop() was used")
            if t.pool.size_changed:
                self.violate("C15.no_disturb", f"task {t.tid} observed a CancelledError ({where}) it was not owed, in a pool whose size was reassigned")
        if where == "cb":
            self.sit["cancel_seen_in_cb"] += 1

    def probe_id(self, pr, tid):
        """Exception class name raised by cancel(tid); only for ids known not to be running."""
        try:
            pr.obj.cancel(tid)
        except Exception as e:  # noqa: BLE001
            return self.exc_class_name(e)
        return "ok"

    def on_cb_enter(self, pr, req, t, kind):
        tid = t.tid
        cur = asyncio.current_task()
        name = cur.get_name() if cur is not None else None
        if name != f"{pr.pstr}_Task-{tid}":
            self.violate("C11.cb_id", f"{kind}-callback got id {tid} but runs in task {name!r}")
        o = pr.obj
        if kind == "c":
            if t.ccb or t.ecb:
                self.violate("C03.cancel_cb_iff", f"cancel callback for task {tid} fired again / after the end callback")
            if t.begun and not (t.finished and t.outcome == "cancelled"):
                self.violate("C03.cancel_cb_iff", f"cancel callback for task {tid} whose coroutine did not end by cancellation (finished={t.finished}, outcome={t.outcome})")
            if not t.begun and not t.unbegun_cancelled:
                self.violate("C03.cancel_cb_iff", f"cancel callback for task {tid} that never began and was never cancelled")
            if o.num_cancelled < 1:
                self.violate("C03.state_at_cb", f"num_cancelled={o.num_cancelled} inside the cancel callback of task {tid}")
            got = self.probe_id(pr, tid)
            if got != "AlreadyCancelled":
                self.violate("C13.must_keep" if (got == "InvalidTaskID" and pr.flush_count) else "C03.state_at_cb", f"inside cancel callback of task {tid}: cancel({tid}) -> {got}, expected AlreadyCancelled")
            self.sit["cb.c." + ("async" if self.cb_spec(t, "c").get("async") else "sync")] += 1
        else:
            if t.ecb:
                self.violate("C02.end_cb_once", f"end callback for task {tid} fired twice")
            if t.begun and not t.finished:
                self.violate("C03.order", f"end callback for task {tid} before its coroutine finished")
            if not t.begun and not t.unbegun_cancelled:
                self.violate("C03.order", f"end callback for task {tid} that never began and was never cancelled")
            if t.ccb == 1:
                self.violate("C03.order", f"end callback for task {tid} while its cancel callback is still running")
            if t.expects_ccb() and self.has_cb(t, "c") and t.ccb != 2:
                self.violate("C03.cancel_cb_iff", f"task {tid} ended by cancellation but the end callback fires without a cancel callback before it")
            if o.num_ended < 1:
                self.violate("C03.state_at_cb", f"num_ended={o.num_ended} inside the end callback of task {tid}")
            got = self.probe_id(pr, tid)
            if got != "AlreadyEnded":
                self.violate("C13.must_keep" if (got == "InvalidTaskID" and pr.flush_count) else "C03.state_at_cb", f"inside end callback of task {tid}: cancel({tid}) -> {got}, expected AlreadyEnded")
            self.sit["cb.e." + ("async" if self.cb_spec(t, "e").get("async") else "sync")] += 1
        self.sit["C03.cb_state_checks"] += 1

    def cb_spec(self, t, kind):
        rq = t.req
        if rq is None:
            return {}
        spec = rq.pool.sreq.spec if rq.kind in ("start", "sfunc") else rq.spec
        return spec.get("ecb" if kind == "e" else "ccb") or {}

    def on_complete(self, t):
        if t.self_pending:
            # requested its own cancellation (directly, or by the detour over an abandoned inline flush while inside its
            # callbacks - then even a task that never began can be hit) and never suspended again: nothing is owed
            t.owed -= 1
            t.self_pending = False
            t.pending = False
            self.triggers.add("T.self_cancel_no_suspend")
            self.triggers.add(f"T.self_cancel_no_suspend@{t.pool.idx}")
            self.sit["self_cancel_no_suspend"] += 1
        if t.begun:
            if t.seen != t.owed:
                self.delivery_violation(t, f"task {t.tid}: observed {t.seen} cancellations, owed {t.owed}")
            elif t.owed:
                self.sit["C06.delivered_exact"] += 1

    # ------------------------------------------------------------ every boundary / UCP
    def check_instant(self, pr, where):
        self.refresh_created(pr)
        o = pr.obj
        nr, nc, ne = o.num_running, o.num_cancelled, o.num_ended
        if not pr.size_changed and nr > pr.cap():
            self.violate("C01.reported_bound", f"num_running={nr} > pool size {pr.size} ({where})")
        if pr.closed:
            if nr or nc or ne:
                self.violate("C08.empty", f"closed pool reports running={nr} cancelled={nc} ended={ne}")
            return
        created = len(pr.tasks)
        if created != pr.max_id + 1:
            self.violate("C11.dense", f"ids known {sorted(pr.tasks)} are not 0..{pr.max_id}")
        fmin = fmax = 0
        for t in pr.tasks.values():
            if t.forget == "forgotten":
                fmin += 1
                fmax += 1
            elif t.forget == "maybe":
                fmax += 1
        s = nr + nc + ne
        if not (created - fmax <= s <= created - fmin):
            self.violate("C03.counter_sum", f"running+cancelled+ended = {nr}+{nc}+{ne} = {s}, created {created}, forgotten between {fmin} and {fmax} ({where})")
        self.n_instant += 1
        if pr.size_changed or pr.size_track:
            self.check_size_instant(pr, where)

    def check_size_instant(self, pr, where):
        want = float("inf") if pr.size is None else pr.size
        got = pr.obj.pool_size
        if got != want:
            self.violate("C15.reports", f"pool_size reports {got}, configured {want}, live {pr.L} ({where})")
        self.sit["C15.reports_checked" + (".busy" if pr.L else ".idle")] += 1

    # ------------------------------------------------------------ quiescence
    def on_quiescence(self, final=False):
        for pr in self.pools:
            self.quiesce_pool(pr, final)

    def quiesce_pool(self, pr, final):
        o = pr.obj
        X = self.mods.exc
        if pr.closed:
            return
        nr = o.num_running
        if nr != pr.L:
            self.violate("C02.idle_accounting", f"idle: num_running={nr} but {pr.L} workers are in flight (pool {pr.idx}, size {pr.size})")
        self.sit["C02.idle_checks" + (".busy" if pr.L else "")] += 1
        if pr.cb_in_progress == 0 and not pr.size_changed:
            full = o.is_full
            want = pr.size is not None and pr.L == pr.size
            if full != want:
                self.violate("C01.is_full_idle", f"idle, no callback in progress: is_full={full}, live={pr.L}, size={pr.size}")
            self.sit["C01.is_full." + ("full" if want else "room")] += 1
        elif pr.cb_in_progress:
            self.sit["idle_mid_callback"] += 1
        # invocations waiting for room although there is room (pool_size assignments)
        if pr.size_track and pr.cb_in_progress == 0:
            demand = 0
            for rq in pr.reqs:
                if rq.accepted and rq.cancelled_at is None and rq.kind in ("apply", "start", "probe") and rq.meta is not None and not rq.meta.done():
                    demand += 1
            if demand and pr.L < pr.cap():
                self.violate("C15.grow_wakes", f"idle: {demand} spawner(s) still have invocations waiting for room, but only {pr.L} run in a pool of size {pr.size}")
            if demand:
                self.sit["C15.idle_with_waiting"] += 1
            if pr.size_changed:
                self.sit["C15.idle_after_assign"] += 1
        # map work conservation
        if pr.cb_in_progress == 0 and pr.L < pr.cap():
            for rq in pr.live_groups.values():
                if rq.kind in MAPKINDS and rq.accepted:
                    remain = (not rq.exhausted) if rq.observable_pulls else (rq.meta is not None and not rq.meta.done())
                    if remain:
                        if rq.live != rq.nc:
                            self.violate("C05.work_conserving", f"idle with room (live {pr.L} < size {pr.size}) and elements left, but request {rq.idx} has {rq.live} live of num_concurrent={rq.nc}")
                        self.sit["C05.work_conserving_checked"] += 1
        # per-id state probes
        for tid, t in pr.tasks.items():
            st = t.state()
            if st == "running" or st == "unknown":
                continue
            got = self.probe_id(pr, tid)
            if t.forget == "forgotten":
                if got != "InvalidTaskID":
                    self.violate("C13.must_forget", f"task {tid} finished before a flush that has returned, but cancel({tid}) -> {got}")
                self.sit["C13.forgotten_probe"] += 1
                continue
            want = "AlreadyCancelled" if st == "cancelled" else "AlreadyEnded"
            if got == want:
                self.sit["C03.state_probe." + st] += 1
                if t.forget == "maybe" and not pr.flushes:
                    t.forget = "kept"  # no flush in flight: it was not forgotten and stays known
                continue
            if got == "InvalidTaskID" and t.forget == "maybe":
                t.forget = "forgotten"
                continue
            if got == "InvalidTaskID" and pr.flush_count and not t.complete:
                self.violate("C13.must_keep", f"task {tid} is still inside its callbacks ({st}) but a flush made it unknown")
            else:
                self.violate("C03.state_probe", f"task {tid}: model state {st}, cancel({tid}) -> {got}")
        # groups
        seen = {}
        names = list(pr.live_groups)
        for g in names:
            rq = pr.live_groups[g]
            try:
                ids = o.get_group_ids(g)
            except Exception as e:  # noqa: BLE001
                self.violate("C10.group_ids", f"get_group_ids({g!r}) raised {type(e).__name__} for a live group")
                continue
            mine = {t.tid for t in pr.tasks.values() if t.req is rq}
            if ids != mine:
                self.violate("C10.group_ids", f"group {g!r}: pool reports {sorted(ids)}, harness attributes {sorted(mine)}")
            for i in ids:
                if i in seen:
                    self.violate("C10.disjoint", f"id {i} in groups {seen[i]!r} and {g!r}")
                seen[i] = g
            self.sit["C10.group_checks"] += 1
        if len(names) >= 2:
            a, b = names[self.quiescences % len(names)], names[(self.quiescences + 1) % len(names)]
            try:
                if o.get_group_ids(a, b) != (o.get_group_ids(a) | o.get_group_ids(b)):
                    self.violate("C10.union", f"get_group_ids({a!r},{b!r}) is not the union")
            except Exception as e:  # noqa: BLE001
                self.violate("C10.union", f"get_group_ids({a!r},{b!r}) raised {type(e).__name__}")
            if len(names) >= 3:
                self.sit["C10.three_live_groups"] += 1
        if self.quiescences % 3 == 0:
            self.unknown_names += 1
            self.check_unknown_group(pr, f"vf-unknown-{self.unknown_names}", "C10.unknown")
        # waiters must still be waiting
        for w in self.waiters:
            if w["pool"] is pr and w["done_at"] is not None and not pr.closed:
                self.violate("C08.waiters", "until_closed() waiter finished although the pool is not closed")

    # ------------------------------------------------------------ flush / gac results
    def on_flush_done(self, pr, f):
        pr.flush_count += 1
        e = f.raised
        if f.abandoned:
            # its caller was cancelled: whatever it forgot or not is undetermined for the tasks it had collected
            for t in pr.tasks.values():
                if t.forget == "kept" and (t.complete or t.tid in f.must):
                    t.forget = "maybe"
            for tid in f.must:
                if pr.tasks[tid].forget != "forgotten":
                    pr.tasks[tid].forget = "maybe"
            return
        if e is not None:
            if f.rex:
                self.violate("C13.no_raise", f"flush(return_exceptions=True) raised {type(e).__name__}: {e}")
                self.violate("C12.return_exceptions", f"flush(return_exceptions=True) raised {type(e).__name__}: {e}")
            elif isinstance(e, CancelledError) and pr.cb_cancel_raised:
                # a user callback let a CancelledError pass that reached it (abandoned flush): that is a callback that raised
                self.sit["C12.flush_raised_callbacks_cancellederror"] += 1
            elif not self.is_injected(e):
                kind = "CancelledError" if isinstance(e, CancelledError) else "other"
                self.violate(f"C12.raised_identity.{kind}", f"flush() raised {type(e).__name__}: {e!r}, which no task or callback raised", pool=pr.idx)
            else:
                self.sit["C12.flush_raised_injected"] += 1
            return
        if not f.rex:
            for tid in f.must:
                t = pr.tasks[tid]
                if t.forget == "kept" and self.failed_with_injected(t) is not None:
                    self.violate("C12.must_raise", f"flush() returned normally although task {tid}, ended before the call and still remembered, had failed with {self.failed_with_injected(t)!r}")
                    break
        for tid in f.must:
            t = pr.tasks[tid]
            t.forget = "forgotten"
        self.sit["C13.flush_returned"] += 1
        if f.suspended > 1:
            self.sit["C13.flush_suspended"] += 1
        if f.overlap_cb:
            self.sit["C13.flush_overlap_cb"] += 1
            self.triggers.add("T.flush_overlap")
        if f.overlap_other or pr.flushes:
            self.sit["C13.flush_overlap_flush"] += 1
        if f.rex:
            self.sit["C12.flush_rex_ok"] += 1
        ne = pr.obj.num_ended
        could = sum(1 for t in pr.tasks.values() if t.forget != "forgotten" and (t.finished or t.ecb or t.unbegun_cancelled or t.complete))
        if ne > could:
            self.violate("C13.must_forget", f"after flush num_ended={ne} but only {could} unforgotten tasks have ended")

    def on_gac_raise(self, pr, e, rex):
        if self.is_injected(e) and not rex:
            self.sit["C12.gac_raised_injected"] += 1
            return
        if rex:
            self.violate("C12.return_exceptions", f"gather_and_close(return_exceptions=True) raised {type(e).__name__}: {e!r}")
        elif isinstance(e, CancelledError) and pr.cb_cancel_raised:
            self.sit["C12.gac_raised_callbacks_cancellederror"] += 1
            return
        kind = "CancelledError" if isinstance(e, CancelledError) else "other"
        if not self.excs:
            self.violate(f"C08.returns_normally.{kind}", f"gather_and_close raised {type(e).__name__}: {e!r} although no task or callback raised", pool=pr.idx)
        elif not self.is_injected(e):
            self.violate(f"C12.raised_identity.{kind}", f"gather_and_close raised {type(e).__name__}: {e!r}, which no task or callback raised", pool=pr.idx)
            self.violate(f"C08.returns_normally.{kind}", f"gather_and_close raised {type(e).__name__}: {e!r}, which no task or callback raised", pool=pr.idx)

    def failed_with_injected(self, t):
        """The exception (one of those the scenario injected) with which this pool task ended, if any."""
        task = t.task
        if task is None or not task.done() or task.cancelled():
            return None
        e = task.exception()
        if e is not None and self.is_injected(e):
            return e
        # what user code of this task raised, as the user code itself knows it (not as the pool reports it)
        return t.user_raised

    def on_gac_return(self, pr, before, rex=True):
        if not rex:
            # "an exception raised this way is what flush()/gather_and_close() raise": every task the pool still
            # remembered is gathered by the close, so a failed one among them must have surfaced
            for t in pr.tasks.values():
                if t.forget == "kept" and self.failed_with_injected(t) is not None:
                    self.violate("C12.must_raise", f"gather_and_close() returned normally although task {t.tid}, still remembered, had failed with {self.failed_with_injected(t)!r}")
                    break
            else:
                self.sit["C12.gac_returned_nothing_failed"] += 1
        if pr.L:
            self.violate("C08.waits_all", f"gather_and_close returned while {pr.L} workers are still live")
        if pr.cb_in_progress:
            self.violate("C08.waits_all", f"gather_and_close returned while {pr.cb_in_progress} callbacks are still in progress")
        for rq in before:
            if rq.cancelled_at is None and rq.meta is not None and not rq.meta.done():
                self.violate("C08.waits_all", f"gather_and_close returned while the spawner of request {rq.idx} ({rq.kind}) is still working")
        for rq in pr.reqs:
            # a group cancelled before the call (even in the same tick): its spawner has to be over, too, when the pool is declared closed
            if rq.accepted and rq.cancelled_at is not None and rq.cancelled_at < pr.gac_call_at and rq.meta is not None and not rq.meta.done():
                self.violate("C08.waits_all", f"gather_and_close returned while the spawner of request {rq.idx} ({rq.kind}), cancelled before the call, has not finished")
                break
        else:
            self.sit["C08.cancelled_spawners_over_at_return"] += 1
        o = pr.obj
        if o.num_running or o.num_cancelled or o.num_ended:
            self.violate("C08.empty", f"after gather_and_close: running={o.num_running} cancelled={o.num_cancelled} ended={o.num_ended}")
        for w in self.waiters:
            if w["pool"] is pr and w["done_at"] is not None and w["done_at"] < pr.close_at:
                self.violate("C08.waiters", "until_closed() waiter finished before gather_and_close returned")
        self.sit["C08.returned"] += 1

    # ------------------------------------------------------------ internal errors
    def on_internal_error(self, msg, exc):
        self.violate("C02.internal_error", f"loop exception handler: {msg}: {type(exc).__name__}: {exc}")

    def collect_task_errors(self):
        for pr in self.pools:
            for t in pr.tasks.values():
                task = t.task
                if task is None or not task.done() or task.cancelled():
                    continue
                exc = task.exception()
                if exc is not None and not self.is_injected(exc):
                    self.violate("C13.must_keep" if isinstance(exc, KeyError) and pr.flush_count else "C02.internal_error",
                                 f"pool task {t.tid} died with {type(exc).__name__}: {exc!r}")
            for rq in pr.reqs:
                m = rq.meta
                if m is None or not m.done() or m.cancelled():
                    continue
                exc = m.exception()
                if exc is not None:
                    self.violate("C04.count" if rq.kind in ("apply", "start", "probe") else "C05.once_in_order",
                                 f"spawner of request {rq.idx} ({rq.kind}) died with {type(exc).__name__}: {exc!r}")

    # ------------------------------------------------------------ final
    def final_checks(self, after_close=False):
        for pr in self.pools:
            self.final_pool(pr, after_close)
        for kind, pr, b in self.bgk:
            if b.done():
                continue
            if kind == "waiter":
                if pr.closed:
                    self.violate("C08.waiters", "until_closed() waiter still pending although the pool is closed")
            elif kind == "gac":
                if pr.size == 0 and self.pending_work(pr):
                    continue  # the size was set to 0 while it waits: nothing may start, so it (correctly) keeps waiting
                self.violate("C08.progress", f"gather_and_close of pool {pr.idx} still pending at final quiescence with every gate open")
            elif kind == "flush":
                self.violate("C13.progress", f"flush of pool {pr.idx} still pending at final quiescence with every gate open")

    def final_pool(self, pr, after_close):
        n0 = len(self.viol)
        self._final_pool(pr, after_close)
        if pr.group_cancels:
            for v in list(self.viol[n0:]):
                if v["clause"].startswith(("C04.count", "C04.skip", "C05.once_in_order", "C05.skip")):
                    self.violate("C07.siblings", "a request of a group that was never cancelled did not complete in a run with group cancellations: " + v["msg"])
            if len(self.viol) == n0:
                self.sit["C07.siblings_ok"] += 1
        if pr.size_changed:
            for v in list(self.viol[n0:]):
                if v["clause"].startswith(("C04.count", "C05.once_in_order")):
                    self.violate("C15.grow_wakes", "a request waiting for room did not complete in a pool whose size was reassigned (a higher value lets waiting tasks start): " + v["msg"])
        if self.excs:
            for v in list(self.viol[n0:]):
                c = v["clause"]
                if c.startswith(("C04.", "C05.", "C02.end_cb_once", "C03.cb_completes")):
                    self.violate("C12.others_complete", "with injected failures in the run: " + v["msg"])
            if len(self.viol) == n0:
                self.sit["C12.others_complete_ok"] += 1

    def _final_pool(self, pr, after_close):
        stuck_ok = pr.size == 0
        for tid, t in sorted(pr.tasks.items()):
            evs = " ".join(t.events) + " " if t.events else ""
            if not ORDER_RE.match(evs):
                self.violate("C03.order", f"task {tid}: event order {t.events}")
            if t.begun and not t.finished:
                self.violate("C03.cb_completes", f"task {tid} began and never finished although every gate is open")
                continue
            if t.ccb == 1 or t.ecb == 1:
                self.violate("C03.cb_completes", f"task {tid}: a callback was entered and never exited")
            he, hc = self.has_cb(t, "e"), self.has_cb(t, "c")
            ended = t.finished or t.unbegun_cancelled
            if he and ended and t.ecb != 2:
                self.violate("C02.end_cb_once", f"task {tid} ({'cancelled before its first step' if not t.begun else t.outcome}) never got its end callback")
            if hc and ended and t.expects_ccb() and t.ccb != 2:
                self.violate("C03.cancel_cb_iff", f"task {tid} ended by cancellation ({'before its first step' if not t.begun else 'in its body'}) without a cancel callback")
            if t.pending and not t.complete:
                self.delivery_violation(t, f"task {tid} still has an undelivered cancellation at the end")
            if not t.begun and not t.unbegun_cancelled and not stuck_ok:
                self.violate("C02.end_cb_once", f"task {tid} was created, never cancelled, and never began")
                self.violate("C04.lost_invocation", f"task {tid} was created for an invocation, was never cancelled, and its coroutine never began")
        if pr.closed and after_close:
            self.check_nothing_after(pr)
            for w in self.waiters:
                if w["pool"] is pr and w["done_at"] is None:
                    self.violate("C08.waiters", "until_closed() waiter not released although gather_and_close returned")
                elif w["pool"] is pr and w["res"] is not True:
                    self.violate("C08.waiters", f"until_closed() returned {w['res']!r}")
            if not getattr(pr, "closed_checked", False):
                pr.closed_checked = True
                self.check_closed_rejects(pr)
        if stuck_ok:
            return
        # requests
        s_cancelled = any(rq.kind == "start" and rq.cancelled_at is not None for rq in pr.reqs)
        for rq in pr.reqs:
            if not rq.accepted:
                continue
            ntasks = sum(1 for t in pr.tasks.values() if t.req is rq)
            if rq.kind in ("apply", "probe"):
                raised = sum(1 for v in rq.invs if v.raised)
                marker = rq.spec.get("marker", True)
                if rq.cancelled_at is None:
                    if marker and len(rq.invs) != rq.n:
                        self.violate("C04.count", f"apply request {rq.idx} (num={rq.n}, group {rq.group}): func was called {len(rq.invs)} times")
                    if ntasks != rq.n - raised:
                        self.violate("C04.skip" if raised else "C04.count", f"apply request {rq.idx} (num={rq.n}, {raised} calls raised): {ntasks} tasks were created")
                    if pr.locked or rq.locked_after:
                        self.sit["C04.completed_under_lock"] += 1
                    if rq.n == 0:
                        self.sit["C04.num0"] += 1
                    if raised:
                        self.sit["C04.callraise"] += 1
                    self.sit["C04.count_checked"] += 1
                elif ntasks > rq.n:
                    self.violate("C04.after_cancel", f"cancelled apply request {rq.idx}: {ntasks} tasks > num={rq.n}")
            elif rq.kind in MAPKINDS:
                if rq.cancelled_at is None:
                    exp = rq.n - len(rq.bad)
                    if ntasks != exp:
                        self.violate("C05.skip" if rq.bad else "C05.once_in_order", f"{rq.kind} request {rq.idx}: {rq.n} elements, {len(rq.bad)} bad: {ntasks} tasks were created, expected {exp}")
                    ids = [v.tid for v in rq.invs if v.tid is not None]
                    if ids != sorted(ids):
                        self.violate("C05.once_in_order", f"{rq.kind} request {rq.idx}: task ids not in element order: {ids}")
                    if rq.observable_pulls and not rq.exhausted:
                        self.violate("C05.once_in_order", f"{rq.kind} request {rq.idx}: iterable not consumed to the end")
                    if rq.bad:
                        self.sit["C05.skip_checked"] += 1
                    self.sit["C05.count_checked"] += 1
                    if rq.n > rq.nc:
                        self.sit["C05.n_gt_nc"] += 1
            elif rq.kind == "start":
                if rq.cancelled_at is None and not s_cancelled and not pr.sreq.callraise:
                    if ntasks != rq.n:
                        self.violate("C04.count", f"start({rq.n}) request {rq.idx} (group {rq.group}): {ntasks} tasks were created")
                    self.sit["C04.count_checked"] += 1
        if pr.cls == "S" and not s_cancelled:
            tot = sum(rq.n for rq in pr.reqs if rq.kind == "start" and rq.accepted)
            sreq = pr.sreq
            raised = sum(1 for v in sreq.invs if v.raised)
            if sreq.spec.get("marker", True) and len(sreq.invs) != tot:
                self.violate("C04.count", f"SimpleTaskPool {pr.idx}: start() requested {tot} in total, func was called {len(sreq.invs)} times")
            ntasks = len(pr.tasks)
            if ntasks != tot - raised:
                self.violate("C04.skip" if raised else "C04.count", f"SimpleTaskPool {pr.idx}: {tot} requested, {raised} calls raised, {ntasks} tasks created")

    def check_nothing_after(self, pr):
        at = pr.close_at
        for e in self.log[at:]:
            k = e[0]
            if k in ("begin", "finish", "cb_enter", "cb_exit", "cancel_seen") and e[3] == pr.idx:
                self.violate("C08.nothing_after", f"event after gather_and_close returned: {e}")
                break
            if k in ("invoke", "pull") and self.reqs[e[3]].pool is pr:
                self.violate("C08.nothing_after", f"event after gather_and_close returned: {e}")
                break

    def check_closed_rejects(self, pr):
        X = self.mods.exc
        o = pr.obj
        calls = []
        probe = ReqProbe(self, pr)
        for unlock in (False, True):
            if unlock:
                o.unlock()
                pr.locked = False
            for name, fn in probe.calls():
                try:
                    fn()
                except X.PoolIsClosed:
                    self.sit["C08.closed_rejects"] += 1
                except Exception as e:  # noqa: BLE001
                    self.violate("C08.closed_rejects", f"{name} on a closed pool (unlocked={unlock}) raised {type(e).__name__}: {e}")
                else:
                    self.violate("C08.closed_rejects", f"{name} on a closed pool (unlocked={unlock}) was accepted")
        if probe.called:
            self.violate("C08.closed_rejects", "a spawn request on a closed pool called func / touched the iterable")


class ReqProbe:
    """Spawn attempts used against a closed pool."""

    def __init__(self, world, pr):
        self.world = world
        self.pr = pr
        self.called = 0

    def calls(self):
        pr = self.pr
        o = pr.obj
        probe = self

        async def f(*a, **k):
            probe.called += 1

        def it():
            probe.called += 1
            yield 1

        if pr.cls == "T":
            yield "apply", lambda: o.apply(f)
            yield "map", lambda: o.map(f, it())
            yield "starmap", lambda: o.starmap(f, it())
            yield "doublestarmap", lambda: o.doublestarmap(f, it())
        else:
            yield "start", lambda: o.start(1)
