"""Queue world (C20): the real queue_context.Queue under producers, consumers, failures and cancellations."""

from __future__ import annotations

import asyncio
import random
from asyncio import CancelledError
from collections import Counter

from .loop import new_loop
from .model import Injected
from .world import Livelock, MAX_IDLE_ITERS


class QueueWorld:
    def __init__(self, sc, mods):
        self.sc = sc
        self.mods = mods
        self.log = []
        self.viol = []
        self.sit = Counter()
        self.loop = None
        self.puts = 0
        self.exits = 0
        self.calls = 0  # task_done calls seen
        self.joins = []
        self.gates = []
        self.cons = {}
        self.checks_on = True
        self.quiescences = 0
        self.inconclusive = None
        self.cur_calls = {}  # asyncio task -> task_done calls made from it
        self.cstate = {}

    def ev(self, kind, *data):
        self.log.append((kind, self.loop.vf_iteration, self.loop.vf_handle_no) + data)

    def violate(self, clause, msg):
        if self.checks_on and len(self.viol) < 8:
            self.viol.append({"clause": clause, "msg": msg, "at": len(self.log), "triggers": []})

    # ------------------------------------------------------------
    def run(self):
        loop = new_loop()
        self.loop = loop
        loop.set_exception_handler(lambda lp, ctx: None)
        loop.vf_after_handle = self._after_handle
        with asyncio.Runner(loop_factory=lambda: loop) as runner:
            try:
                runner.run(self._main())
            except Livelock as e:
                self.inconclusive = str(e)
            finally:
                loop.vf_after_handle = None
                self.checks_on = False
                for g in self.gates:
                    g.set()
        kinds = [e[0] for e in self.log]
        return {"viol": self.viol, "sit": dict(self.sit), "inconclusive": self.inconclusive,
                "sig": hash((tuple(kinds),)) & 0xFFFFFFFFFFFF, "events": len(self.log), "iterations": loop.vf_iteration}

    def _after_handle(self):
        if not self.checks_on:
            return
        if self.calls != self.exits:
            self.violate("C20.once", f"boundary: task_done() called {self.calls} times, {self.exits} blocks have exited")
        self.sit["boundary_checks"] += 1

    def balance_event(self):
        if self.puts - self.exits == 0:
            for j in self.joins:
                if not j["done"]:
                    j["zero"] = True

    async def _main(self):
        world = self
        Q = self.mods.queue.Queue

        class CountingQueue(Q):
            def task_done(self):
                world.calls += 1
                t = asyncio.current_task()
                world.cur_calls[t] = world.cur_calls.get(t, 0) + 1
                world.ev("task_done")
                return super().task_done()

        self.q = CountingQueue(self.sc.get("maxsize", 0))
        tasks = []
        for i, p in enumerate(self.sc["producers"]):
            tasks.append(asyncio.ensure_future(self._producer(i, p)))
        for i, c in enumerate(self.sc["consumers"]):
            t = asyncio.ensure_future(self._consumer(i, c))
            self.cons[i] = t
            tasks.append(t)
        for step in self.sc["steps"]:
            op = step[0]
            if op == "y":
                for _ in range(step[1]):
                    await asyncio.sleep(0)
            elif op == "idle":
                await self.idle()
            elif op == "cancel":
                self.do_cancel(step[1])
            elif op == "cancel_at":
                tasks.append(asyncio.ensure_future(self._intruder(step[1], step[2])))
            elif op == "join":
                tasks.append(asyncio.ensure_future(self._join()))
            elif op == "open":
                self.open_one(step[1])
            elif op == "put":
                tasks.append(asyncio.ensure_future(self._producer(100 + len(tasks), {"items": step[1], "gap": 0})))
        # drain
        for _ in range(100):
            await self.idle()
            if not self.gates:
                break
            for g in list(self.gates):
                g.set()
        self.final()
        for t in tasks:
            t.cancel()
        self.checks_on = False
        await asyncio.gather(*tasks, return_exceptions=True)

    def do_cancel(self, c):
        t = self.cons.get(c)
        if t is not None and not t.done():
            st = self.cstate.get(c, "unstarted")
            self.sit["cancel." + st] += 1
            self.ev("cancel", c, st)
            t.cancel()

    async def _intruder(self, delay, c):
        for _ in range(delay):
            await asyncio.sleep(0)
        self.do_cancel(c)

    def open_one(self, k):
        gs = [g for g in self.gates if not g.is_set()]
        if gs:
            gs[k % len(gs)].set()

    async def _producer(self, i, p):
        for j in range(p["items"]):
            for _ in range(p.get("gap", 0)):
                await asyncio.sleep(0)
            item = (i, j)
            if p.get("falsy"):
                # sentinels and other falsy items are items too; each is put twice in a row (the very same object, e.g. a wake-up marker)
                item = [None, 0, "", (), False][(i + j // 2) % 5]
            if self.puts and item is getattr(self, "last_item", self):
                self.sit["put.same_object_as_previous"] += 1
            self.last_item = item
            if p.get("nowait"):
                try:
                    self.q.put_nowait(item)
                except asyncio.QueueFull:
                    self.ev("put_rejected", i, j)
                    self.sit["put_nowait_rejected"] += 1
                    continue  # the item was refused: it is not in the queue and nobody will ever process it
            else:
                await self.q.put(item)
            self.puts += 1
            self.ev("put", i, j)
            self.balance_event()

    async def _consumer(self, c, spec):
        me = asyncio.current_task()
        for rnd in range(spec.get("rounds", 1)):
            body = spec["bodies"][rnd % len(spec["bodies"])]
            entered = False
            exc = None
            own = False
            self.cstate[c] = "waiting"
            base = self.cur_calls.get(me, 0)
            self.ev("c_wait", c)
            if body.get("nested"):
                await self._nested(c, me, body)
                continue
            try:
                async with self.q as item:
                    entered = True
                    self.cstate[c] = "inside"
                    self.ev("c_enter", c, item)
                    for _ in range(body.get("y", 0)):
                        await asyncio.sleep(0)
                    if body.get("gate"):
                        g = asyncio.Event()
                        self.gates.append(g)
                        try:
                            await g.wait()
                        finally:
                            self.gates.remove(g)
                    if body.get("raise"):
                        raise Injected(f"body {c}")
                    if body.get("selfcancel"):
                        own = True
                        raise CancelledError()
            except BaseException as e:  # noqa: BLE001
                exc = e
            made = self.cur_calls.get(me, 0) - base
            if entered:
                self.exits += 1
                kind = "normal" if exc is None else "raise" if isinstance(exc, Injected) else "cancelled" if isinstance(exc, CancelledError) else "other"
                self.ev("c_exit", c, kind)
                self.sit["exit." + kind] += 1
                if isinstance(exc, ValueError):
                    self.violate("C20.once", f"consumer {c}: ValueError out of the block exit: {exc}")
                elif exc is not None and not isinstance(exc, (Injected, CancelledError)):
                    self.violate("C20.once", f"consumer {c}: {type(exc).__name__} out of the block: {exc}")
                if made != 1:
                    self.violate("C20.once", f"consumer {c}: block exited ({kind}) with {made} task_done() calls")
                self.balance_event()
            else:
                self.ev("c_nowait", c, type(exc).__name__)
                self.sit["cancelled_waiting"] += 1
                if not isinstance(exc, CancelledError):
                    # nobody cancelled anything: the wait for an item itself failed (and may have swallowed the item)
                    self.violate("C20.handed", f"consumer {c}: waiting for an item ended with {type(exc).__name__}: {exc} instead of an item")
                if made != 0:
                    self.violate("C20.no_mark_waiting", f"consumer {c} never got an item but made {made} task_done() calls")
            self.cstate[c] = "between"
            if isinstance(exc, CancelledError) and not own:
                self.cstate[c] = "gone"
                raise exc
        self.cstate[c] = "gone"

    async def _nested(self, c, me, body):
        """One task holds two blocks on the same queue at once: `async with q as a, q as b`."""
        depth = 0
        base = self.cur_calls.get(me, 0)
        exc = None
        self.cstate[c] = "waiting"
        self.ev("c_wait_nested", c)
        try:
            async with self.q as a:
                depth = 1
                self.cstate[c] = "inside"
                self.ev("c_enter", c, a)
                try:
                    async with self.q as b:
                        depth = 2
                        self.ev("c_enter", c, b)
                        for _ in range(body.get("y", 0)):
                            await asyncio.sleep(0)
                finally:
                    if depth == 2:
                        inner = self.cur_calls.get(me, 0) - base
                        self.exits += 1
                        self.ev("c_exit", c, "inner")
                        self.sit["exit.nested_inner"] += 1
                        if inner != 1:
                            self.violate("C20.once", f"consumer {c}: inner nested block exited with {inner} task_done() calls")
                        self.balance_event()
        except BaseException as e:  # noqa: BLE001
            exc = e
        made = self.cur_calls.get(me, 0) - base
        if depth >= 1:
            self.exits += 1
            self.ev("c_exit", c, "outer")
            self.sit["exit.nested_outer"] += 1
            if isinstance(exc, ValueError):
                self.violate("C20.once", f"consumer {c}: ValueError out of a nested block exit: {exc}")
            if made != depth:
                self.violate("C20.once", f"consumer {c}: {depth} nested blocks exited with {made} task_done() calls in total")
            self.balance_event()
        elif made != 0:
            self.violate("C20.no_mark_waiting", f"consumer {c} never got an item but made {made} task_done() calls")
        self.cstate[c] = "between"
        if isinstance(exc, CancelledError):
            self.cstate[c] = "gone"
            raise exc

    async def _join(self):
        j = {"zero": self.puts - self.exits == 0, "done": False}
        self.joins.append(j)
        self.ev("join_call", self.puts - self.exits)
        h0 = self.loop.vf_handle_no
        await self.q.join()
        j["done"] = True
        self.ev("join_ret")
        if not j["zero"]:
            self.violate("C20.join_not_early", "join() returned although at no moment since the call all items put had been processed")
        self.sit["join_returned" + (".waited" if self.loop.vf_handle_no != h0 else ".immediate")] += 1

    async def idle(self):
        lp = self.loop
        clean = 0
        start = lp.vf_iteration
        while True:
            n0 = lp.vf_handle_no
            await asyncio.sleep(0)
            if lp.vf_handle_no == n0 + 1:
                clean += 1
                if clean >= 2:
                    break
            else:
                clean = 0
            if lp.vf_iteration - start > MAX_IDLE_ITERS:
                raise Livelock("queue world")
        self.quiescences += 1
        for j in self.joins:
            if j["zero"] and not j["done"]:
                self.violate("C20.join_released", "idle: join() still pending although every item put had been processed at some moment since the call")
            if not j["done"]:
                self.sit["join_pending_at_idle"] += 1
                if self.q.empty() and not any(st == "inside" for st in self.cstate.values()) and not getattr(self, "nested_open", 0):
                    # nothing left in the queue and no block open, yet join() waits: an item was taken and never marked
                    self.violate("C20.join_released", "idle: join() still pending although the queue is empty and no block is open")

    def final(self):
        if self.calls != self.exits:
            self.violate("C20.once", f"end: task_done() called {self.calls} times, {self.exits} blocks exited")


def gen_scenario(rng: random.Random):
    nprod = rng.choice([1, 1, 2, 3])
    ncons = rng.choice([1, 2, 2, 3])
    sc = {"maxsize": rng.choice([0, 0, 1, 2]),
          "producers": [{"items": rng.randint(0, 5) if rng.random() > 0.1 else rng.randint(9, 14), "gap": rng.randint(0, 3), "falsy": rng.random() < 0.3, "nowait": rng.random() < 0.3} for _ in range(nprod)],
          "consumers": [], "steps": []}
    for _ in range(ncons):
        bodies = []
        for _ in range(rng.choice([1, 2, 3])):
            b = {"y": rng.choice([0, 0, 1, 2, 3])}
            x = rng.random()
            if x < 0.2:
                b["raise"] = True
            elif x < 0.3:
                b["gate"] = True
            elif x < 0.35:
                b["selfcancel"] = True
            elif x < 0.45:
                b = {"y": rng.choice([0, 1, 2]), "nested": True}
            bodies.append(b)
        sc["consumers"].append({"rounds": rng.randint(1, 4) if rng.random() > 0.1 else rng.randint(8, 14), "bodies": bodies})
    for _ in range(rng.randint(2, 12)):
        x = rng.random()
        if x < 0.3:
            sc["steps"].append(["y", rng.randint(1, 4)])
        elif x < 0.45:
            sc["steps"].append(["cancel", rng.randrange(ncons)])
        elif x < 0.6:
            sc["steps"].append(["cancel_at", rng.randint(0, 10), rng.randrange(ncons)])
        elif x < 0.75:
            sc["steps"].append(["join"])
        elif x < 0.8:
            sc["steps"].append(["idle"])
        elif x < 0.9:
            sc["steps"].append(["open", rng.randint(0, 3)])
        else:
            sc["steps"].append(["put", rng.randint(1, 2)])
    return sc


BASES = [
    {"maxsize": 0, "producers": [{"items": 2, "gap": 1}], "consumers": [{"rounds": 2, "bodies": [{"y": 1}]}], "steps": [["join"]]},
    {"maxsize": 1, "producers": [{"items": 3, "gap": 0}], "consumers": [{"rounds": 2, "bodies": [{"y": 2}]}, {"rounds": 2, "bodies": [{"y": 0}, {"y": 1, "raise": True}]}], "steps": [["y", 1], ["join"]]},
    {"maxsize": 0, "producers": [{"items": 2, "gap": 2}, {"items": 2, "gap": 3}], "consumers": [{"rounds": 2, "bodies": [{"y": 1}]}, {"rounds": 1, "bodies": [{"y": 3}]}, {"rounds": 2, "bodies": [{"y": 0}]}], "steps": [["join"], ["y", 3], ["join"]]},
    {"maxsize": 2, "producers": [{"items": 4, "gap": 1}], "consumers": [{"rounds": 3, "bodies": [{"y": 2}, {"y": 0, "raise": True}]}, {"rounds": 3, "bodies": [{"y": 1}]}], "steps": [["y", 2], ["join"]]},
    {"maxsize": 0, "producers": [{"items": 1, "gap": 4}], "consumers": [{"rounds": 1, "bodies": [{"y": 2}]}, {"rounds": 1, "bodies": [{"y": 1}]}], "steps": [["join"]]},
    {"maxsize": 0, "producers": [{"items": 3, "gap": 2}], "consumers": [{"rounds": 3, "bodies": [{"y": 1, "selfcancel": True}, {"y": 1}]}], "steps": [["y", 4], ["join"], ["put", 1]]},
    {"maxsize": 0, "producers": [{"items": 5, "gap": 1, "falsy": True}], "consumers": [{"rounds": 3, "bodies": [{"y": 1}]}, {"rounds": 2, "bodies": [{"y": 0}]}], "steps": [["y", 3], ["join"]]},
    {"maxsize": 2, "producers": [{"items": 5, "gap": 0, "nowait": True}], "consumers": [{"rounds": 2, "bodies": [{"y": 2}]}, {"rounds": 1, "bodies": [{"y": 1}]}], "steps": [["y", 2], ["join"], ["y", 6], ["join"]]},
    {"maxsize": 0, "producers": [{"items": 4, "gap": 0, "falsy": True, "nowait": True}], "consumers": [{"rounds": 4, "bodies": [{"y": 1}]}], "steps": [["y", 2], ["join"], ["put", 1]]},
    {"maxsize": 0, "producers": [{"items": 4, "gap": 2}], "consumers": [{"rounds": 1, "bodies": [{"y": 1, "nested": True}]}, {"rounds": 2, "bodies": [{"y": 1}]}], "steps": [["join"], ["y", 5], ["join"]]},
]


def sweep_cases():
    """Every (base, consumer, iteration) single-cancellation placement and every pair on small bases."""
    out = []
    for bi, b in enumerate(BASES):
        for c in range(len(b["consumers"])):
            for it in range(0, 26):
                out.append((bi, ((it, c),)))
    for bi in (0, 1, 4):
        b = BASES[bi]
        for c1 in range(len(b["consumers"])):
            for c2 in range(len(b["consumers"])):
                for i1 in range(0, 14):
                    for i2 in range(i1, 14):
                        out.append((bi, ((i1, c1), (i2, c2))))
    return out


def sweep_scenario(k):
    cases = sweep_cases()
    bi, cancels = cases[k % len(cases)]
    import copy

    sc = copy.deepcopy(BASES[bi])
    sc["steps"] = [["cancel_at", it, c] for it, c in cancels] + sc["steps"]
    sc["sweep"] = [bi, [list(x) for x in cancels]]
    return sc
