"""Operations on the pools, with the shadow model's expectations around every call."""

from __future__ import annotations

import asyncio
import re
from asyncio import CancelledError

from .model import FlushRec, ReqRec

MAPKINDS = ("map", "starmap", "doublestarmap")


def _plain(*a, **k):
    return None


def _genfunc(*a, **k):
    yield 1


async def _asyncgen(*a, **k):
    yield 1


BAD_FUNCS = {
    "plain": _plain,
    "lambda": lambda *a, **k: None,
    "builtin": len,
    "gen": _genfunc,
    "asyncgen": _asyncgen,
}


def fresh_bad_func(kind):
    """A new callable per request: what a long-lived program passes are short-lived closures, lambdas and bound methods."""
    if kind == "builtin":
        return len
    if kind == "plain":
        def _plain_fresh(*a, **k):
            return None
        return _plain_fresh
    if kind == "lambda":
        return lambda *a, **k: None
    if kind == "gen":
        def _gen_fresh(*a, **k):
            yield 1
        return _gen_fresh
    if kind == "asyncgen":
        async def _agen_fresh(*a, **k):
            yield 1
        return _agen_fresh
    if kind == "method":
        class Holder:
            def run(self, *a, **k):
                return None
        return Holder().run
    return BAD_FUNCS[kind]


class OpsMixin:
    # ------------------------------------------------------------ dispatch
    def do_op(self, step, issuer):
        op = step["op"]
        fn = getattr(self, "op_" + op, None)
        if fn is None:
            if op == "flush":
                return self.start_flush(step, issuer)
            if op == "gac":
                return self.start_gac(step, issuer)
            if op == "open":
                return self.open_gates(tuple(step["sel"]))
            raise ValueError(f"unknown op {op}")
        return fn(step, issuer)

    def op_seq(self, step, issuer):
        """Several operations back to back inside one handle (no yield in between)."""
        for sub in step["steps"]:
            self.do_op(sub, issuer)

    def issuer_task(self, issuer):
        if issuer[0] in ("worker", "cb"):
            return issuer[1]
        return None

    def note_op(self, name, situation):
        self.opsig.append((name, situation))
        self.sit[f"op.{name}.{situation}"] += 1

    # ------------------------------------------------------------ snapshots
    def snapshot(self, pr):
        o = pr.obj
        groups = {}
        for g in pr.live_groups:
            try:
                groups[g] = frozenset(o.get_group_ids(g))
            except Exception as e:  # noqa: BLE001
                groups[g] = type(e).__name__
        return (o.num_running, o.num_cancelled, o.num_ended, o.is_locked, o.is_full, o.pool_size, groups)

    # ------------------------------------------------------------ spawning
    def expect_spawn(self, pr, gname, nc, func_kind):
        """Set of acceptable exception classes for a spawn request now (empty = must be accepted)."""
        X = self.mods.exc
        causes = set()
        if func_kind:
            causes.add(X.NotCoroutineFunction)
        if pr.closed:
            causes.add(X.PoolIsClosed)
        elif pr.locked:
            causes.add(X.PoolIsLocked)
        if nc is not None and nc < 1:
            causes.add(ValueError)
        if gname is not None and gname in pr.live_groups:
            causes.add(X.TaskGroupAlreadyExists)
        return causes

    def resolve_gname(self, pr, g):
        if g is None or isinstance(g, str):
            return g
        if g[0] == "dup":
            names = sorted(pr.live_groups)
            if not names:
                return None
            return names[g[1] % len(names)]
        if g[0] == "reuse":
            if not pr.dead_groups:
                return None
            name = pr.dead_groups[g[1] % len(pr.dead_groups)]
            return name
        if g[0] == "reuse_last":
            return pr.dead_groups[-1] if pr.dead_groups else None
        return None

    def _spawn(self, pr, req, method, call, gname, nc, func_kind):
        expect = self.expect_spawn(pr, gname, nc, func_kind)
        before_tasks = asyncio.all_tasks()
        snap = self.snapshot(pr)
        n_events = (len(req.invs), req.pulled)
        if expect and self.skip_rejected:
            req.rejected = True
            return None
        self.ev("rej_call" if expect else "op_call", method, pr.idx, req.idx)
        busy = pr.L > 0
        try:
            name = call()
        except Exception as e:  # noqa: BLE001
            self.ev("rej_raise" if expect else "op_raise", method, pr.idx, req.idx, type(e).__name__)
            self.note_op(method, "rejected:" + type(e).__name__ + (":busy" if busy else ""))
            req.accepted = False
            if not expect:
                self.violate("C09.type", f"{method} rejected with {type(e).__name__}: {e} although nothing is wrong (locked={pr.locked} closed={pr.closed})")
                if gname is None and isinstance(e, self.mods.exc.InvalidGroupName):
                    self.violate("C10.name_fresh", f"{method} without a group name failed over the name it generated itself: {type(e).__name__}: {e} ({len(pr.live_groups)} live groups)")
                if gname is not None and gname in pr.dead_groups:
                    self.violate("C07.name_free", f"{method}(group_name={gname!r}) rejected with {type(e).__name__} although that group was cancelled and its name must be free")
            elif not any(isinstance(e, c) for c in expect):
                self.violate("C09.type", f"{method} raised {type(e).__name__}, acceptable: {sorted(c.__name__ for c in expect)}")
            after = self.snapshot(pr)
            if after != snap:
                self.violate("C09.no_trace", f"rejected {method} changed the pool: {snap} -> {after}")
            if asyncio.all_tasks() != before_tasks:
                self.violate("C09.no_trace", f"rejected {method} scheduled a task")
            if (len(req.invs), req.pulled) != n_events:
                self.violate("C09.no_trace", f"rejected {method} called func / advanced the iterable")
            if gname is not None and gname not in pr.live_groups:
                self.check_unknown_group(pr, gname, "C09.no_trace")
            self.sit["C09.reject"] += 1
            for c in expect:
                self.sit[f"C09.cause.{method}.{c.__name__}"] += 1
            if len(expect) > 1:
                self.sit["C09.multi_cause"] += 1
            if busy:
                self.sit["C09.reject_busy"] += 1
            req.rejected = True
            return None
        self.ev("op_ret", method, pr.idx, req.idx, name)
        if expect:
            self.violate("C09.raises", f"{method} was accepted although {sorted(c.__name__ for c in expect)} applies (locked={pr.locked} closed={pr.closed})")
            # keep the model usable: treat as accepted
        if pr.unlocked_after_lock:
            self.sit["C09.accept_after_unlock"] += 1
        req.accepted = True
        req.group = name
        req.accept_at = len(self.log)
        if gname is None:
            self.check_generated_name(pr, req, method, name)
        elif name != gname:
            self.violate("C10.group_ids", f"{method}(group_name={gname!r}) returned {name!r}")
        if name in pr.live_groups:
            self.violate("C10.name_fresh", f"{method} returned the name of a live group: {name!r}")
        pr.live_groups[name] = req
        if name in pr.dead_groups:
            pr.dead_groups.remove(name)
            self.sit["name_reused"] += 1
            self.sit["C07.name_reused_ok"] += 1
        new = asyncio.all_tasks() - before_tasks
        if len(new) == 1:
            req.meta = next(iter(new))
        self.note_op(method, "accepted" + (":full" if pr.L >= pr.cap() else ""))
        pr.reqs.append(req)
        return name

    def check_generated_name(self, pr, req, method, name):
        if method == "start":
            pat = r"^start-group-\d+$"
        else:
            pat = "^" + re.escape(f"{method}-{req.func.__name__}-group-") + r"\d+$"
        if not isinstance(name, str) or not re.match(pat, name):
            self.violate("C10.name_pattern", f"generated name {name!r} does not match {pat}")
        self.sit["C10.generated_names"] += 1

    def check_unknown_group(self, pr, name, clause):
        X = self.mods.exc
        try:
            pr.obj.get_group_ids(name)
        except X.InvalidGroupName:
            return True
        except Exception as e:  # noqa: BLE001
            self.violate(clause, f"get_group_ids({name!r}) raised {type(e).__name__}")
            return False
        self.violate(clause, f"group {name!r} should be unknown but get_group_ids returned normally")
        return False

    def op_apply(self, step, issuer):
        pr = self.pools[step["pool"]]
        if pr.cls != "T":
            return None
        req = ReqRec(len(self.reqs), pr, step.get("rkind", "apply"), step)
        req.n = step.get("num", 1)
        self.reqs.append(req)
        fk = step.get("func_kind")
        gname = self.resolve_gname(pr, step.get("gname"))
        req.named = gname is not None
        func = (fresh_bad_func(fk) if req.idx % 3 else BAD_FUNCS.get(fk, _plain)) if fk else self.make_func(req)
        if fk:
            req.func = func
        shape = step.get("args", 0)
        if shape == "iter" and step.get("num", 1) > 1 and not self.expect_spawn(pr, gname, None, fk):
            shape = 2  # a one-shot iterator serves one invocation only: use it where the request is refused or has one invocation
        req.args_obj = self.make_args(shape, req)
        req.kwargs_obj = self.make_kwargs(step.get("kwargs"), req)
        kw = {}
        if gname is not None:
            kw["group_name"] = gname
        if "num" in step:
            kw["num"] = step["num"]
        ecb = self.make_cb(req, "e", step.get("ecb"))
        ccb = self.make_cb(req, "c", step.get("ccb"))
        if ecb is not None:
            kw["end_callback"] = ecb
        if ccb is not None:
            kw["cancel_callback"] = ccb
        if req.kwargs_obj is not None:
            kw["kwargs"] = req.kwargs_obj
        if shape or step.get("args_explicit"):
            kw["args"] = getattr(req, "args_passed", None) or req.args_obj

        def call():
            return pr.obj.apply(func, **kw)

        name = self._spawn(pr, req, "apply", call, gname, None, fk)
        passed = getattr(req, "args_passed", None)
        if passed is not None:
            self.sit["apply.one_shot_args" + (".rejected" if name is None else "")] += 1
            if name is None and passed.pulled and not self.skip_rejected:
                self.violate("C09.no_trace", f"rejected apply advanced the one-shot iterator given as args ({passed.pulled} steps)")
        return name

    def op_map(self, step, issuer):
        pr = self.pools[step["pool"]]
        if pr.cls != "T":
            return None
        kind = step["kind"]
        req = ReqRec(len(self.reqs), pr, kind, step)
        self.reqs.append(req)
        fk = step.get("func_kind")
        gname = self.resolve_gname(pr, step.get("gname"))
        req.named = gname is not None
        func = (fresh_bad_func(fk) if req.idx % 3 else BAD_FUNCS.get(fk, _plain)) if fk else self.make_func(req)
        if fk:
            req.func = func
        it = self.make_iterable(req)
        kw = {}
        if gname is not None:
            kw["group_name"] = gname
        if "nc" in step:
            kw["num_concurrent"] = step["nc"]
        ecb = self.make_cb(req, "e", step.get("ecb"))
        ccb = self.make_cb(req, "c", step.get("ccb"))
        if ecb is not None:
            kw["end_callback"] = ecb
        if ccb is not None:
            kw["cancel_callback"] = ccb
        meth = getattr(pr.obj, kind)

        def call():
            return meth(func, it, **kw)

        return self._spawn(pr, req, kind, call, gname, step.get("nc", 1), fk)

    def op_start(self, step, issuer):
        pr = self.pools[step["pool"]]
        if pr.cls != "S":
            return None
        req = ReqRec(len(self.reqs), pr, "start", step)
        req.n = step["num"]
        req.func = pr.sreq.func
        self.reqs.append(req)

        def call():
            return pr.obj.start(step["num"])

        return self._spawn(pr, req, "start", call, None, None, None)

    def op_ctor_neg(self, step, issuer):
        P = self.mods.pool
        v = step.get("v", -1)
        if self.skip_rejected:
            return
        self.ev("rej_call", "ctor_neg", v)
        try:
            if step.get("cls", "T") == "T":
                P.TaskPool(pool_size=v)
            else:
                P.SimpleTaskPool(self.pools[0].sreq.func if self.pools[0].cls == "S" else self.make_func(ReqRec(-1, self.pools[0], "apply", {})), pool_size=v)
        except ValueError:
            self.sit["C09.cause.ctor.ValueError"] += 1
        except Exception as e:  # noqa: BLE001
            self.violate("C09.type", f"constructor with pool_size={v} raised {type(e).__name__}")
        else:
            self.violate("C09.raises", f"constructor accepted pool_size={v}")

    # ------------------------------------------------------------ pool_size
    def op_grow_size(self, step, issuer):
        """Reconfigure a pool in which no task is in flight to a larger size (C01: the size is fixed while tasks are in flight)."""
        pr = self.pools[step["pool"]]
        self.refresh_created(pr)
        if pr.A or pr.L or pr.cb_in_progress or pr.size is None or pr.closed or pr.size_changed:
            return
        for k in range(2 if step.get("twice") else 1):
            new = None if step["by"] is None else pr.size + step["by"] + k
            self.ev("op_call", "grow_size", pr.idx, new)
            try:
                pr.obj.pool_size = float("inf") if new is None else new
            except Exception as e:  # noqa: BLE001
                self.violate("C15.negative", f"pool_size = {new} raised {type(e).__name__}")
                return
            pr.size = new
            self.sit["C01.reconfigured_empty_pool" + (".waiting" if self.pending_work(pr) else "")] += 1
            if new is None:
                break
        self.note_op("grow_size", "waiting" if self.pending_work(pr) else "idle")

    def op_init_size(self, step, issuer):
        """The size is given by assignment instead of in the constructor: allowed as long as the pool has never had a
        request (C01: 'the size the pool was given', fixed while tasks are in flight)."""
        pr = self.pools[step["pool"]]
        if pr.reqs or pr.tasks or pr.closed or pr.locked or pr.size_changed:
            return
        v = step["v"]
        self.ev("op_call", "init_size", pr.idx, v)
        try:
            pr.obj.pool_size = float("inf") if v is None else v
        except Exception as e:  # noqa: BLE001
            self.violate("C15.negative", f"pool_size = {v} raised {type(e).__name__}")
            return
        pr.size = v
        self.sit["C01.size_given_by_assignment" + (".was_unbounded" if step.get("was_none") else "")] += 1
        self.note_op("init_size", "idle")

    def op_set_size(self, step, issuer):
        pr = self.pools[step["pool"]]
        v = step["v"]
        same = v == "same"
        if same:
            v = pr.size  # the size the pool already has is assigned once more: the pool size stays fixed
        if v == "orig":
            v = pr.orig_size  # back to the size the pool was constructed with (e.g. after a pause with size 0)
        val = float("inf") if v is None else v
        self.refresh_created(pr)
        snap = self.snapshot(pr)
        neg = v is not None and v < 0
        if neg and self.skip_rejected:
            return
        self.ev("rej_call" if neg else "op_call", "set_size", pr.idx, v, issuer[0])
        old = pr.size
        try:
            pr.obj.pool_size = val
        except ValueError:
            self.ev("rej_raise" if neg else "op_raise", "set_size", pr.idx, "ValueError")
            if v is None or v >= 0:
                self.violate("C15.negative", f"pool_size = {v} raised ValueError")
            elif self.snapshot(pr) != snap:
                self.violate("C15.negative", f"rejected pool_size = {v} changed the pool: {snap} -> {self.snapshot(pr)}")
                self.violate("C09.no_trace", f"rejected pool_size = {v} changed the pool: {snap} -> {self.snapshot(pr)}")
            else:
                pr.neg_pending = True  # the rejected assignment must not show later either (checked at the next task ending / quiescence)
            self.sit["C15.negative"] += 1
            self.sit["C09.cause.pool_size.ValueError" + (".oversubscribed" if (pr.size is not None and pr.L > pr.size) else "")] += 1
            return
        except Exception as e:  # noqa: BLE001
            self.violate("C15.negative", f"pool_size = {v} raised {type(e).__name__}: {e}")
            return
        if v is not None and v < 0:
            self.violate("C15.negative", f"pool_size = {v} was accepted")
            self.violate("C09.raises", f"pool_size = {v} was accepted")
            return
        if same:
            self.sit["C01.same_size_assigned" + (".in_callbacks" if pr.cb_in_progress else ".busy" if pr.L else ".idle")] += 1
            self.note_op("set_size", f"same:{min(pr.L, 3)}:{'cb' if pr.cb_in_progress else '-'}")
            self.check_instant(pr, ("set_size", v))
            return
        pr.size = v
        pr.size_set_iter = self.loop.vf_iteration
        pr.size_changed = True
        pr.size_track = True
        self.triggers.add("T.size_reassigned")
        oc, nc_ = (99 if old is None else old), (99 if v is None else v)
        kind = "grow" if nc_ > oc else "shrink" if nc_ < oc else "same"
        self.sit[f"C15.assign.{kind}"] += 1
        if pr.L:
            self.sit[f"C15.assign.{kind}.busy"] += 1
        if self.pending_work(pr):
            self.sit[f"C15.assign.{kind}.waiting"] += 1
        if nc_ < pr.L:
            self.sit["C15.assign.below_running"] += 1
        self.note_op("set_size", f"{kind}:{min(pr.L, 3)}:{'w' if self.pending_work(pr) else '-'}")
        self.check_instant(pr, ("set_size", v))

    # ------------------------------------------------------------ lock / unlock
    def op_lock(self, step, issuer):
        pr = self.pools[step["pool"]]
        was = pr.locked
        snap = self.snapshot(pr)
        self.ev("op_call", "lock", pr.idx)
        pr.obj.lock()
        if step.get("twice"):
            pr.obj.lock()
        pr.locked = True
        after = self.snapshot(pr)
        exp = snap[:3] + (True,) + snap[4:]
        if after != exp:
            self.violate("C09.idempotent", f"lock() (was_locked={was}, twice={bool(step.get('twice'))}): {snap} -> {after}")
        if self.midspawn(pr):
            self.triggers.add("T.lock_midspawn")
            self.sit["lock_midspawn"] += 1
        self.note_op("lock", "again" if was else "first")

    def op_unlock(self, step, issuer):
        pr = self.pools[step["pool"]]
        if pr.closing:
            return  # unlocking in the middle of gather_and_close() is outside every property's scope
        was = pr.locked
        snap = self.snapshot(pr)
        self.ev("op_call", "unlock", pr.idx)
        pr.obj.unlock()
        if step.get("twice"):
            pr.obj.unlock()
        pr.locked = False
        if was:
            pr.unlocked_after_lock = True
        after = self.snapshot(pr)
        exp = snap[:3] + (False,) + snap[4:]
        if after != exp:
            self.violate("C09.idempotent", f"unlock() (was_locked={was}): {snap} -> {after}")
        self.note_op("unlock", "locked" if was else "noop")

    def midspawn(self, pr):
        for rq in pr.reqs:
            if rq.kind in ("apply", "start", "probe") and rq.accepted and rq.cancelled_at is None and rq.meta is not None and not rq.meta.done():
                return True
        return False

    def pending_work(self, pr):
        for rq in pr.reqs:
            if rq.accepted and rq.cancelled_at is None and rq.meta is not None and not rq.meta.done():
                return True
        for t in pr.tasks.values():
            if not t.begun and not t.unbegun_cancelled and not t.complete and t.ccb == 0 and t.ecb == 0:
                return True
        return False

    # ------------------------------------------------------------ cancel by id
    def model_state(self, t, issuer_t=None, cbkind=None):
        return t.state()

    def resolve_ids(self, pr, sels, issuer):
        run = sorted(tid for tid, t in pr.tasks.items() if t.state() == "running" and t.forget == "kept")
        ended = sorted(tid for tid, t in pr.tasks.items() if t.state() == "ended" and t.forget == "kept")
        incb = sorted(tid for tid, t in pr.tasks.items() if t.state() == "cancelled" and t.forget == "kept")
        flushed = sorted(tid for tid, t in pr.tasks.items() if t.forget == "forgotten")
        pend = [tid for tid in run if pr.tasks[tid].pending]
        unbegun = [tid for tid in run if not pr.tasks[tid].begun]
        qwait = [t.tid for t in getattr(self, "qwaiters", ()) if t.pool is pr]
        ids = []
        for s in sels:
            k = s[0]
            src = {"run": run, "ended": ended, "incb": incb, "flushed": flushed, "pend": pend, "unbegun": unbegun, "qwait": qwait}.get(k)
            if src is not None:
                if src:
                    ids.append(src[s[1] % len(src)])
            elif k == "never":
                ids.append(pr.max_id + 3 + (s[1] if len(s) > 1 else 0))
            elif k == "neg":
                ids.append(-1 - (s[1] if len(s) > 1 else 0))
            elif k == "self":
                it = self.issuer_task(issuer)
                if it is not None and it.pool is pr:
                    ids.append(it.tid)
            elif k == "id":
                ids.append(s[1])
        return ids

    def classify_id(self, pr, tid):
        """-> set of acceptable outcomes for this id: 'ok' or exception class names."""
        t = pr.tasks.get(tid)
        if t is None:
            if 0 <= tid <= pr.max_id + 0 and False:
                return {"?"}
            return {"InvalidTaskID"}
        if t.forget == "forgotten":
            return {"InvalidTaskID"}
        st = t.state()
        if st == "running":
            return {"ok"}
        if st == "unknown":
            # cancelled before its first step; its transitions are not observable without callbacks
            return {"ok", "AlreadyCancelled", "AlreadyEnded"} | ({"InvalidTaskID"} if t.forget == "maybe" or pr.flushes else set())
        cls = {"cancelled": "AlreadyCancelled", "ended": "AlreadyEnded"}[st]
        if t.forget == "maybe":
            return {cls, "InvalidTaskID"}
        return {cls}

    def exc_class_name(self, e):
        X = self.mods.exc
        for name in ("AlreadyCancelled", "AlreadyEnded", "InvalidTaskID"):
            if isinstance(e, getattr(X, name)):
                return name
        return type(e).__name__

    def deliver_cancel(self, t, issuer, via):
        """Model effect of Task.cancel() reaching a task that the pool considers running."""
        it = self.issuer_task(issuer)
        t.cancel_ops += 1
        t.vias.add(via)
        self.sit[f"cancel.{via}." + ("unbegun" if not t.begun else "pending" if t.pending else "self" if it is t else "live")] += 1
        if not t.begun:
            if not t.unbegun_cancelled:
                t.unbegun_cancelled = True
                self.triggers.add("T.cancel_unbegun")
                self.ev("cancel_unbegun", t.pool.idx, t.tid)
                self.uncount(t)
                self._advance(t)
            return
        f = t.inline_flush
        if f is not None and not f.done:
            # the worker awaits flush() inline: cancelling it abandons that flush (as in _abandon_flush) - gather()
            # passes the cancellation on to the tasks it waits for, i.e. into their still running callbacks; a second
            # Task.cancel() of the worker before it has resumed is passed on once more
            t.vias.add("in_flush")
            f.abandoned = True
            cur = asyncio.current_task()
            for o in t.pool.tasks.values():
                if not o.complete and (o.finished or o.ccb or o.ecb or o.unbegun_cancelled):
                    if (o.task is cur or o.cb_task is cur) and o is not t:
                        # the code issuing this cancellation runs inside a callback of a task the abandoned flush is
                        # gathering: gather() cancels that very task while it is running - a self-cancellation by detour
                        if not o.pending:
                            o.pending = True
                            o.owed += 1
                            o.self_pending = True
                            self.triggers.add("T.self_cancel")
                            self.sit["self_cancel_via_abandoned_inline_flush"] += 1
                    else:
                        o.extra_ok += 1
            self.sit["flush_inline_abandoned_by_cancel"] += 1
        if t.pending:
            return
        t.pending = True
        t.owed += 1
        if it is t:
            t.self_pending = True
            self.triggers.add("T.self_cancel")

    def op_cancel(self, step, issuer):
        pr = self.pools[step["pool"]]
        ids = self.resolve_ids(pr, step["ids"], issuer)
        classes = [self.classify_id(pr, i) for i in ids]
        must_ok = all(c == {"ok"} for c in classes)
        may_ok = all("ok" in c for c in classes)
        offending = set()
        for c in classes:
            offending |= c - {"ok"}
        self.ev("op_call", "cancel", pr.idx, tuple(ids), issuer[0])
        kw = {}
        if "msg" in step:
            kw["msg"] = step["msg"]
            self.sit["cancel_with_msg"] += 1
        try:
            pr.obj.cancel(*ids, **kw)
        except Exception as e:  # noqa: BLE001
            name = self.exc_class_name(e)
            self.ev("op_raise", "cancel", pr.idx, name)
            if must_ok:
                self.violate("C06.accept", f"cancel{tuple(ids)} raised {name} although all ids are running (model)")
            elif name not in offending:
                self.violate("C06.reject_type", f"cancel{tuple(ids)} raised {name}; offending ids allow only {sorted(offending)}")
            mixed = any("ok" in c for c in classes)
            self.note_op("cancel", "rejected:" + name + (":mixed" if mixed else ""))
            self.sit["C06.reject." + name] += 1
            if mixed:
                self.sit["C06.mixed"] += 1
            # all-or-nothing: the model changes nothing; deliveries are checked at finish
            return
        self.ev("op_ret", "cancel", pr.idx)
        if not may_ok:
            self.violate("C06.reject_type", f"cancel{tuple(ids)} returned normally although {sorted(offending)} applies: {[sorted(c) for c in classes]}")
            return
        for tid in ids:
            t = pr.tasks[tid]
            if t.state() == "running":
                self.deliver_cancel(t, issuer, "id")
        self.note_op("cancel", f"ok:{min(len(ids), 3)}:{issuer[0]}")
        self.sit["C06.accepted_calls"] += 1

    # ------------------------------------------------------------ group cancel
    def spawner_situation(self, pr, rq):
        """Read-only classification for the evidence file (never a verdict)."""
        try:
            m = rq.meta
            if m is None:
                return "unknown"
            if m.done():
                return "finished"
            coro = m.get_coro()
            import inspect
            if inspect.getcoroutinestate(coro) == "CORO_CREATED":
                return "not_started"
            fw = getattr(m, "_fut_waiter", None)
            if fw is None:
                return "runnable"
            if fw.done():
                return "slot_handed"
            sem = pr.obj._enough_room
            if fw in (getattr(sem, "_waiters", None) or ()):
                return "wait_pool_room"
            return "wait_map_slot"
        except Exception:  # noqa: BLE001
            return "unknown"

    def model_cancel_group(self, pr, name, rq, issuer):
        pr.group_cancels += 1
        rq.cancelled_at = len(self.log)
        del pr.live_groups[name]
        pr.dead_groups.append(name)
        ids = [tid for tid, t in pr.tasks.items() if t.req is rq]
        for tid in ids:
            t = pr.tasks[tid]
            if t.state() == "running":
                self.deliver_cancel(t, issuer, "group")

    def resolve_group(self, pr, sel, issuer):
        k = sel[0]
        if k == "live":
            names = sorted(pr.live_groups)
            return names[sel[1] % len(names)] if names else None
        if k == "own":
            it = self.issuer_task(issuer)
            if it is not None and it.req is not None and it.req.group in pr.live_groups and it.pool is pr:
                return it.req.group
            if issuer[0] in ("iter", "call"):
                return None
            return None
        if k == "dead":
            dead = [n for n in pr.dead_groups if n not in pr.live_groups]
            return dead[sel[1] % len(dead)] if dead else f"never-{sel[1]}"
        if k == "unknown":
            self.unknown_names += 1
            n = sel[1] if len(sel) > 1 else 0
            return ("no-such-group-{}", "no such group {}", "100%-{}", "%s{}", "{{0}}{}", "%(g)s{}")[n % 6].format(n)
        if k == "name":
            return sel[1]
        return None

    def reentrant(self, issuer, rq):
        """Is the issuer user code that the spawner of `rq` itself is executing (argument iterator, func call)?"""
        if issuer[0] not in ("iter", "call"):
            return False
        src = issuer[1]
        if src is rq:
            return True
        return src.kind == "sfunc" and rq.kind == "start" and src.pool is rq.pool

    def op_cancel_group(self, step, issuer):
        pr = self.pools[step["pool"]]
        X = self.mods.exc
        self.refresh_created(pr)
        name = self.resolve_group(pr, step["sel"], issuer)
        if name is None:
            return
        rq = pr.live_groups.get(name)
        if rq is not None and self.reentrant(issuer, rq):
            return  # re-entrant cancellation from the group's own iterator / call site (inside its spawner): out of scope
        sitn = self.spawner_situation(pr, rq) if rq is not None else "n/a"
        snap = self.snapshot(pr) if rq is None else None
        self.ev("op_call", "cancel_group", pr.idx, name, issuer[0])
        kw = {"msg": step["msg"]} if "msg" in step else {}
        try:
            pr.obj.cancel_group(name, **kw)
        except Exception as e:  # noqa: BLE001
            self.ev("op_raise", "cancel_group", pr.idx, type(e).__name__)
            if rq is not None:
                self.violate("C07.members_cancelled", f"cancel_group({name!r}) raised {type(e).__name__} for a live group")
            elif not isinstance(e, X.InvalidGroupName):
                self.violate("C07.unknown", f"cancel_group({name!r}) raised {type(e).__name__} instead of InvalidGroupName")
            elif self.snapshot(pr) != snap:
                self.violate("C07.unknown", f"cancel_group of unknown {name!r} changed the pool")
            self.sit["C07.unknown_name"] += 1
            self.note_op("cancel_group", "unknown")
            return
        self.ev("op_ret", "cancel_group", pr.idx, name)
        if rq is None:
            self.violate("C07.unknown", f"cancel_group({name!r}) returned normally for an unknown group")
            return
        own = self.issuer_task(issuer)
        rel = issuer[0] + (":own" if own is not None and own.req is rq else "")
        self.sit[f"C07.sit.{sitn}.{rel}"] += 1
        self.sit[f"C07.spawner.{sitn}"] += 1
        self.sit[f"C07.issuer.{rel}"] += 1
        remaining = rq.meta is not None and not rq.meta.done()
        if remaining:
            self.sit["C07.unspawned_work"] += 1
        self.model_cancel_group(pr, name, rq, issuer)
        self.check_unknown_group(pr, name, "C07.forgotten")
        self.note_op("cancel_group", sitn + ":" + rel)

    def op_cancel_all(self, step, issuer):
        pr = self.pools[step["pool"]]
        self.refresh_created(pr)
        names = list(pr.live_groups)
        for n in names:
            rq = pr.live_groups[n]
            if self.reentrant(issuer, rq):
                return  # would cancel the issuer's own group from inside its own spawner
        self.ev("op_call", "cancel_all", pr.idx, issuer[0])
        sits = [self.spawner_situation(pr, pr.live_groups[n]) for n in names]
        kw = {"msg": step["msg"]} if "msg" in step else {}
        try:
            pr.obj.cancel_all(**kw)
        except Exception as e:  # noqa: BLE001
            self.violate("C07.members_cancelled", f"cancel_all raised {type(e).__name__}: {e}")
            return
        self.ev("op_ret", "cancel_all", pr.idx)
        for n, s in zip(names, sits):
            rq = pr.live_groups[n]
            self.sit[f"C07.spawner.{s}"] += 1
            self.model_cancel_group(pr, n, rq, issuer)
            self.check_unknown_group(pr, n, "C07.forgotten")
        self.sit["C07.cancel_all"] += 1
        self.note_op("cancel_all", f"{min(len(names), 4)}:{issuer[0]}")

    # ------------------------------------------------------------ stop
    def op_stop(self, step, issuer):
        pr = self.pools[step["pool"]]
        if pr.cls != "S":
            return
        self.refresh_created(pr)
        running = sorted((tid for tid, t in pr.tasks.items() if t.state() == "running" and t.forget == "kept"), reverse=True)
        unknown = [tid for tid, t in pr.tasks.items() if t.state() == "unknown" and not t.complete]
        allmode = step.get("all")
        n = len(running) if allmode else step["n"]
        self.ev("op_call", "stop_all" if allmode else "stop", pr.idx, n, issuer[0])
        try:
            got = pr.obj.stop_all() if allmode else pr.obj.stop(n)
        except Exception as e:  # noqa: BLE001
            # stop() picks its victims among the running tasks itself, so it has no reason to raise - whatever their state
            self.violate("C14.ids", f"stop({n}) raised {type(e).__name__}: {e} (running per model: {running}, cancelled before first step: {unknown})")
            return
        self.ev("op_ret", "stop", pr.idx, tuple(got))
        pr.stop_calls += 1
        if unknown:
            # Tasks cancelled before their first step may or may not still be listed as running (they leave at their first step).
            self.sit["C14.with_unobservable"] += 1
            clause = "C14.stop_all" if allmode else "C14.ids"
            alien = [g for g in got if g not in running and g not in unknown]
            if alien:
                self.violate(clause, f"stop returned ids {alien} that are not running (running {running}, cancelled before first step {unknown})")
            if list(got) != sorted(got, reverse=True):
                self.violate(clause, f"stop returned {list(got)}: not newest first")
            got_def = [g for g in got if g in running]
            if got_def != running[: len(got_def)]:
                self.violate(clause, f"stop returned {list(got)}: among the started tasks it must take the newest ones first (running, newest first: {running})")
            if allmode:
                missing = [r_ for r_ in running if r_ not in got]
                if missing:
                    self.violate("C14.stop_all", f"stop_all() returned {list(got)} and left the running tasks {missing} alone (cancelled before first step: {unknown})")
            else:
                if len(got) > max(n, 0):
                    self.violate("C14.ids", f"stop({n}) returned {len(got)} ids")
                if len(got) < min(max(n, 0), len(running)):
                    self.violate("C14.ids", f"stop({n}) returned only {list(got)} although {len(running)} started tasks are running: {running}")
            for tid in got_def:
                self.deliver_cancel(pr.tasks[tid], issuer, "stop")
            for tid in got:
                if tid in unknown:
                    pr.tasks[tid].vias.add("stop")
            return
        exp = running[: max(n, 0)]
        if list(got) != exp:
            clause = "C14.stop_all" if allmode else ("C14.nonpositive" if n <= 0 else "C14.ids")
            self.violate(clause, f"stop({n}) returned {list(got)}, running (newest first) {running}, expected {exp}")
        for tid in got:
            t = pr.tasks.get(tid)
            if t is not None and t.state() == "running":
                self.deliver_cancel(t, issuer, "stop")
        gaps = bool(running) and (running[0] - running[-1] + 1 != len(running))
        self.sit["C14.stop_calls"] += 1
        if gaps:
            self.sit["C14.gaps"] += 1
        if n <= 0:
            self.sit["C14.nonpositive"] += 1
        if n > len(running):
            self.sit["C14.more_than_running"] += 1
        self.note_op("stop", f"{'all' if allmode else min(max(n, -1), 4)}:{min(len(running), 4)}:{'gaps' if gaps else 'dense'}")

    def op_stop_all(self, step, issuer):
        s = dict(step)
        s["all"] = True
        return self.op_stop(s, issuer)

    # ------------------------------------------------------------ flush
    def start_flush(self, step, issuer):
        pr = self.pools[step["pool"]]
        holder = {}
        task = asyncio.ensure_future(self._flush(pr, step.get("rex", False), step.get("rex_explicit", True), holder))
        self.bgk.append(("flush", pr, task))
        if step.get("abandon") is not None:
            self.bg.append(asyncio.ensure_future(self._abandon_flush(pr, task, holder, step["abandon"])))

    async def _abandon_flush(self, pr, task, holder, after):
        """The caller of flush() gives up (e.g. wait_for timeout): asyncio cancels the flush, and gather() passes the
        cancellation on to the tasks it was waiting for - i.e. into their still running cancel / end callbacks."""
        for _ in range(after):
            await asyncio.sleep(0)
        f = holder.get("f")
        if task.done() or f is None or f.done:
            return
        f.abandoned = True
        # flush takes its snapshot of the tasks to gather only after its first wait, so any task that is inside its
        # callbacks right now may be among them and may get the cancellation passed on by gather()
        for t in pr.tasks.values():
            if not t.complete and (t.finished or t.ccb or t.ecb or t.unbegun_cancelled):
                t.extra_ok += 1
        self.ev("flush_abandon", pr.idx)
        self.sit["flush_abandoned"] += 1
        task.cancel()

    async def _flush(self, pr, rex, explicit=True, holder=None, inline=None):
        must = {tid for tid, t in pr.tasks.items() if t.complete and t.forget != "forgotten"}
        live = {tid for tid, t in pr.tasks.items() if not t.complete}
        f = FlushRec(pr, rex, len(self.log), must, live)
        f.overlap_cb = pr.cb_in_progress > 0
        f.overlap_other = bool(pr.flushes)
        for t in pr.tasks.values():
            if t.done_unknown and t.forget == "kept":
                t.forget = "maybe"
        f.in_cb_at_call = {tid for tid, t in pr.tasks.items() if not t.complete and (t.finished or t.ccb or t.ecb or t.unbegun_cancelled)}
        if holder is not None:
            holder["f"] = f
        if inline is not None:
            inline.inline_flush = f
            if inline.pending:
                # a cancellation of the worker is already under way: it will hit the flush at its first suspension
                f.abandoned = True
                for o in pr.tasks.values():
                    if not o.complete and (o.finished or o.ccb or o.ecb or o.unbegun_cancelled):
                        o.extra_ok += 1
        pr.flushes.append(f)
        h0 = self.loop.vf_handle_no
        self.ev("flush_call", pr.idx, rex)
        try:
            if explicit:
                await pr.obj.flush(return_exceptions=rex)
            else:
                await pr.obj.flush()
        except BaseException as e:  # noqa: BLE001
            f.raised = e
            self.ev("flush_raise", pr.idx, type(e).__name__)
            if inline is not None and isinstance(e, CancelledError):
                self.sit["flush_inline_cancelled"] += 1
        else:
            self.ev("flush_ret", pr.idx)
        f.done = True
        f.suspended = self.loop.vf_handle_no - h0
        pr.flushes.remove(f)
        self.on_flush_done(pr, f)
        if inline is not None:
            inline.inline_flush = None
            inline.q_suspended = f.suspended > 0
            if isinstance(f.raised, CancelledError):
                raise f.raised

    # ------------------------------------------------------------ gather_and_close
    def start_gac(self, step, issuer):
        pr = self.pools[step["pool"]]
        if pr.closing or pr.closed:
            return
        if pr.size == 0 and self.pending_work(pr):
            return  # would (correctly) wait forever
        pr.closing = True
        ws = [asyncio.ensure_future(self._waiter(pr, i)) for i in range(step.get("waiters", 0))]
        self.bgk.extend(("waiter", pr, w) for w in ws)
        self.bgk.append(("gac", pr, asyncio.ensure_future(self._gac(pr, step.get("rex", False), len(ws)))))

    async def _waiter(self, pr, i):
        rec = {"pool": pr, "done_at": None, "res": None}
        self.waiters.append(rec)
        try:
            rec["res"] = await pr.obj.until_closed()
        except BaseException as e:  # noqa: BLE001
            rec["res"] = e
        rec["done_at"] = len(self.log)
        self.ev("waiter_done", pr.idx, i)
        if not pr.closed:
            self.violate("C08.waiters", "until_closed() returned before gather_and_close() did")

    async def _gac(self, pr, rex, nw):
        if nw:
            await asyncio.sleep(0)  # let the waiters reach until_closed()
        before = [rq for rq in pr.reqs if rq.accepted and rq.cancelled_at is None]
        hist = []
        if self.pending_work(pr):
            hist.append("pending_spawner")
        if pr.cb_in_progress:
            hist.append("mid_callback")
        if self.midspawn(pr):
            self.triggers.add("T.lock_midspawn")
        dead_unstarted = False
        try:
            dead_unstarted = bool(pr.obj._meta_tasks_cancelled)
        except Exception:  # noqa: BLE001
            pass
        if dead_unstarted:
            hist.append("dead_spawner")
            if self.pending_work(pr):
                self.triggers.add("T.gac_dead_spawner")
        if pr.locked:
            hist.append("locked_before")
        for h in hist or ["plain"]:
            self.sit["C08.hist." + h] += 1
        pr.locked = True
        pr.gac_call_at = len(self.log)
        self.ev("gac_call", pr.idx, rex)
        try:
            await pr.obj.gather_and_close(return_exceptions=rex)
        except BaseException as e:  # noqa: BLE001
            self.ev("gac_raise", pr.idx, type(e).__name__)
            pr.closing = False
            pr.gac_raised = e
            self.on_gac_raise(pr, e, rex)
            return
        self.ev("gac_ret", pr.idx)
        pr.closed = True
        pr.closing = False
        pr.close_at = len(self.log)
        pr.close_handle = self.loop.vf_handle_no
        self.on_gac_return(pr, before, rex)
        for t in pr.tasks.values():
            t.forget = "forgotten"

    # ------------------------------------------------------------ capacity probe
    async def capacity_probe(self, pr, final):
        if pr.closed or pr.closing or len(self.viol) >= self.max_viol:
            return
        if self.pending_work(pr) or pr.cb_in_progress or pr.flushes:
            self.sit["probe.skipped"] += 1
            return
        if pr.size_changed and (not final or pr.L):
            return
        if pr.locked:
            if not final:
                return
            self.do_op({"op": "unlock", "pool": pr.idx}, ("conductor",))
        N, L = pr.size, pr.L
        want = 6 if N is None else max(N - L, 0) + 1
        expect = 6 if N is None else max(N - L, 0)
        pr.probe_mode = True
        if pr.cls == "T":
            step = {"op": "apply", "pool": pr.idx, "num": want, "rkind": "probe", "bodies": [{"pre": [["g"]]}], "fname": "probe"}
            name = self.do_op(step, ("conductor",))
        else:
            name = self.do_op({"op": "start", "pool": pr.idx, "num": want}, ("conductor",))
        if name is None:
            pr.probe_mode = False
            return
        rq = pr.live_groups[name]
        await self.idle(quiet=True)
        begun = sum(1 for tid in rq.tids if pr.tasks[tid].begun)
        if pr.cls == "S":
            begun = sum(1 for t in pr.tasks.values() if t.req is rq and t.begun)
        self.ev("probe", pr.idx, want, begun, expect)
        self.sit["C02.probe" + (".busy" if L else ".idle")] += 1
        if begun != expect:
            self.violate("C02.capacity", f"capacity probe: size={N} live={L}: asked for {want} gated tasks, {begun} started, expected {expect}")
            if self.excs:
                self.violate("C12.capacity", f"after injected failures: capacity probe: size={N} live={L}: asked for {want} gated tasks, {begun} started, expected {expect}")
        elif self.excs:
            self.sit["C12.capacity_ok_after_faults"] += 1
        if False:
            pass
        self.do_op({"op": "cancel_group", "pool": pr.idx, "sel": ["name", name]}, ("conductor",))
        pr.probe_mode = False
        await self.drain()
