"""Placement sweeps: one (or two) perturbing operations placed at every loop iteration (head / tail queue
position) and at every user-code point of small hand-written base scenarios (DESIGN.md section 3.3)."""

from __future__ import annotations

import copy
import random

Y = lambda k: ["y", k]  # noqa: E731
G = ["g"]


def _apply(pool, num, **kw):
    d = {"op": "apply", "pool": pool, "num": num, "args": 1, "fname": "w", "marker": True}
    d.update(kw)
    return d


def _map(pool, kind, n, nc, **kw):
    d = {"op": "map", "pool": pool, "kind": kind, "n": n, "nc": nc, "fname": "w", "marker": True, "iter": "gen"}
    d.update(kw)
    return d


BASES = [
    # 0: N=1, apply num=3
    {"pools": [{"cls": "T", "size": 1}], "steps": [_apply(0, 3, bodies=[{"pre": [Y(2)]}], ecb={})]},
    # 1: N=2, map len 5 nc 2 + apply num 2
    {"pools": [{"cls": "T", "size": 2}], "steps": [_map(0, "map", 5, 2, bodies=[{"pre": [Y(1)]}, {"pre": [Y(3)]}], ecb={"async": True, "y": 1}),
                                                     _apply(0, 2, bodies=[{"pre": [Y(2)]}], ccb={})]},
    # 2: N=1, two maps
    {"pools": [{"cls": "T", "size": 1}], "steps": [_map(0, "starmap", 3, 1, bodies=[{"pre": [Y(1)]}]), _map(0, "doublestarmap", 3, 2, bodies=[{"pre": [Y(2)]}], ecb={})]},
    # 3: SimpleTaskPool N=2: start 3, stop 1, start 2
    {"pools": [{"cls": "S", "size": 2, "args": 1, "bodies": [{"pre": [Y(2)]}, {"pre": [Y(4)], "oncancel": ["clean", 1]}], "ecb": {}, "ccb": {"async": True, "y": 1}}],
     "steps": [{"op": "start", "pool": 0, "num": 3}, {"op": "y", "k": 2}, {"op": "stop", "pool": 0, "n": 1}, {"op": "start", "pool": 0, "num": 2}]},
    # 4: N=2, apply 4 + apply 2, async callbacks
    {"pools": [{"cls": "T", "size": 2}], "steps": [_apply(0, 4, bodies=[{"pre": [Y(1)]}, {"pre": [Y(3)], "oncancel": "swallow_cont"}], ecb={"async": True, "y": 1}, ccb={"async": True, "y": 2}),
                                                     _apply(0, 2, bodies=[{"pre": [Y(2)]}], ecb={})]},
    # 5: unbounded, starmap + doublestarmap with bad elements
    {"pools": [{"cls": "T", "size": None}], "steps": [_map(0, "starmap", 4, 2, bad=[1], bodies=[{"pre": [Y(2)]}], ecb={}),
                                                        _map(0, "doublestarmap", 3, 1, bad=[0], bodies=[{"pre": [Y(1)]}], ccb={})]},
    # 6: N=3, gated bodies, gated async cancel callback; the conductor opens gates
    {"pools": [{"cls": "T", "size": 3}], "steps": [_apply(0, 4, bodies=[{"pre": [G, Y(1)]}], ecb={"async": True, "y": 0}, ccb={"async": True, "gate": True}),
                                                     {"op": "y", "k": 3}, {"op": "open", "sel": ["w", 0]}, {"op": "y", "k": 2}, {"op": "open", "sel": ["any", 1]},
                                                     {"op": "y", "k": 2}, {"op": "open", "sel": ["all"]}]},
    # 7: N=1, raising bodies and callbacks
    {"pools": [{"cls": "T", "size": 1}], "steps": [_apply(0, 3, bodies=[{"pre": [Y(1)], "end": "raise"}, {"pre": [Y(1)]}], ecb={"raise": True}, ccb={"async": True, "y": 1, "raise": True})]},
    # 8: SimpleTaskPool N=1, start 3
    {"pools": [{"cls": "S", "size": 1, "args": 0, "bodies": [{"pre": [Y(1)]}], "ecb": {"async": True, "y": 1}, "ccb": {}}],
     "steps": [{"op": "start", "pool": 0, "num": 3}]},
    # 9: N=2, map len 6 nc 3, cleanup / swallowing bodies
    {"pools": [{"cls": "T", "size": 2}], "steps": [_map(0, "map", 6, 3, bodies=[{"pre": [Y(2)], "oncancel": ["clean", 2]}, {"pre": [Y(1)], "oncancel": "swallow_ret"}, {"pre": [Y(3)]}], ecb={}, ccb={})]},
    # 10: N=2, two named groups and a list iterable
    {"pools": [{"cls": "T", "size": 2}], "steps": [_apply(0, 3, gname="ga", bodies=[{"pre": [Y(2)]}]), _map(0, "map", 4, 2, gname="gb", iter="list", bodies=[{"pre": [Y(1)]}], ecb={})]},
    # 11: SimpleTaskPool unbounded, start 2 + start 2 with gates
    {"pools": [{"cls": "S", "size": None, "args": 2, "bodies": [{"pre": [G]}, {"pre": [Y(2)]}], "ecb": {}, "ccb": {}}],
     "steps": [{"op": "start", "pool": 0, "num": 2}, {"op": "y", "k": 2}, {"op": "start", "pool": 0, "num": 2}, {"op": "y", "k": 2}, {"op": "open", "sel": ["all"]}]},
    # 12: N=2, more than ten task starts in one pool: apply 11 + apply 3 (two-digit task ids, tenth start, ...)
    {"pools": [{"cls": "T", "size": 2}], "steps": [_apply(0, 11, bodies=[{"pre": [Y(1)]}], ecb={}), _apply(0, 3, bodies=[{"pre": [Y(2)]}], ccb={})]},
    # 13: N=3, map len 13 nc 3 + apply 2
    {"pools": [{"cls": "T", "size": 3}], "steps": [_map(0, "map", 13, 3, bodies=[{"pre": [Y(1)]}], ecb={}), _apply(0, 2, bodies=[{"pre": [Y(3)]}])]},
    # 14: SimpleTaskPool N=2, start 6 + start 6
    {"pools": [{"cls": "S", "size": 2, "args": 0, "bodies": [{"pre": [Y(1)]}], "ecb": {}, "ccb": {}}],
     "steps": [{"op": "start", "pool": 0, "num": 6}, {"op": "y", "k": 2}, {"op": "start", "pool": 0, "num": 6}]},
    # 15: N=3, housekeeping workers: each requests a group and cancels it in the same handle (a spawner cancelled before its
    # first step), then awaits flush() of its own pool inline
    {"pools": [{"cls": "T", "size": 3}], "steps": [_apply(0, 2, bodies=[{"pre": [Y(1), ["op", {"op": "seq", "steps": [
        {"op": "apply", "pool": 0, "num": 1, "args": 0, "fname": "x", "marker": True, "gname": "zz", "bodies": [{"pre": [["y", 1]]}]},
        {"op": "cancel_group", "pool": 0, "sel": ["name", "zz"]}]}], ["f"], Y(1)]}], ecb={"async": True, "y": 1}),
        _apply(0, 1, bodies=[{"pre": [Y(2)]}])]},
    # 17: N=1, more than ten task starts and a sibling request that needs the single slot afterwards
    {"pools": [{"cls": "T", "size": 1}], "steps": [_apply(0, 11, bodies=[{"pre": [Y(1)]}]), _apply(0, 2, bodies=[{"pre": [Y(1)]}], ecb={})]},
    # 16: N=3, gather_and_close() is already waiting for gated workers; cancel callbacks are slow (async, gated)
    {"pools": [{"cls": "T", "size": 3}], "steps": [_apply(0, 3, bodies=[{"pre": [G, Y(1)]}, {"pre": [Y(4)]}], ecb={}, ccb={"async": True, "gate": True}),
                                                     {"op": "y", "k": 2}, {"op": "gac", "pool": 0, "rex": True, "waiters": 1},
                                                     {"op": "y", "k": 3}, {"op": "open", "sel": ["w", 0]}, {"op": "y", "k": 3}, {"op": "open", "sel": ["w", 0]},
                                                     {"op": "y", "k": 3}, {"op": "open", "sel": ["all"]}]},
]

OPS = {
    "cancel0": {"op": "cancel", "pool": 0, "ids": [["run", 0]]},
    "cancel_last": {"op": "cancel", "pool": 0, "ids": [["run", 99]]},
    "cancel2": {"op": "cancel", "pool": 0, "ids": [["run", 1], ["run", 0]]},
    "cancel_mixed": {"op": "cancel", "pool": 0, "ids": [["run", 0], ["ended", 0]]},
    "cancel_twice": {"op": "cancel", "pool": 0, "ids": [["run", 0], ["run", 0]]},
    "cancel_group0": {"op": "cancel_group", "pool": 0, "sel": ["live", 0]},
    "cancel_group1": {"op": "cancel_group", "pool": 0, "sel": ["live", 1]},
    "cancel_all": {"op": "cancel_all", "pool": 0},
    "stop1": {"op": "stop", "pool": 0, "n": 1},
    "stop2": {"op": "stop", "pool": 0, "n": 2},
    "stop_all": {"op": "stop_all", "pool": 0},
    "flush": {"op": "flush", "pool": 0, "rex": True},
    "flush_raise": {"op": "flush", "pool": 0, "rex": False},
    "lock": {"op": "lock", "pool": 0},
    "gac": {"op": "gac", "pool": 0, "rex": True, "waiters": 1},
    "apply1": {"op": "apply", "pool": 0, "num": 1, "args": 1, "fname": "x", "marker": True, "bodies": [{"pre": [["y", 1]]}]},
    "start1": {"op": "start", "pool": 0, "num": 1},
    "set_same": {"op": "set_size", "pool": 0, "v": "same"},
    "cancel_all_msg": {"op": "cancel_all", "pool": 0, "msg": "bye"},
    "cancel_group0_msg": {"op": "cancel_group", "pool": 0, "sel": ["live", 0], "msg": "stop it"},
    "cancel_then_close_raise": {"op": "seq", "steps": [{"op": "cancel_all", "pool": 0, "msg": "shutting down"}, {"op": "gac", "pool": 0, "rex": False, "waiters": 1}]},
    "cancel_close_inline": {"op": "seq", "steps": [{"op": "cancel_all", "pool": 0, "msg": "shutting down"}], "then_gac": {"pool": 0, "rex": False}},
    "cancel_close_inline_rex": {"op": "seq", "steps": [{"op": "cancel_all", "pool": 0}], "then_gac": {"pool": 0, "rex": True}},
    "pause_resume": {"op": "seq", "steps": [{"op": "set_size", "pool": 0, "v": 0}, {"op": "set_size", "pool": 0, "v": "orig"}]},
    "cancel_then_close": {"op": "seq", "steps": [{"op": "cancel_all", "pool": 0, "msg": "shutting down"}, {"op": "gac", "pool": 0, "rex": True, "waiters": 1}]},
    "regroup": {"op": "seq", "steps": [{"op": "cancel_group", "pool": 0, "sel": ["live", 0]},
                                       {"op": "apply", "pool": 0, "num": 2, "args": 1, "fname": "w", "marker": True, "gname": ["reuse_last"], "bodies": [{"pre": [["y", 1]]}]}]},
    "regroup_map": {"op": "seq", "steps": [{"op": "cancel_group", "pool": 0, "sel": ["live", 1]},
                                           {"op": "map", "pool": 0, "kind": "map", "n": 3, "nc": 1, "fname": "w", "marker": True, "iter": "gen", "gname": ["reuse_last"], "bodies": [{"pre": [["y", 1]]}]}]},
}

SPECS = {
    "C01": ["cancel0", "cancel_group0", "cancel_all", "stop1", "flush", "apply1", "start1", "set_same"],
    "C02": ["cancel0", "cancel_last", "cancel2", "cancel_group0", "cancel_group1", "cancel_all", "stop1", "stop_all", "flush", "cancel_then_close"],
    "C03": ["cancel0", "cancel_twice", "cancel_group0", "cancel_all", "stop2", "flush", "cancel_all_msg", "cancel_group0_msg", "cancel_then_close", "cancel_close_inline_rex"],
    "C04": ["lock", "gac", "cancel0", "cancel_group1", "regroup", "pause_resume"],
    "C05": ["cancel0", "cancel_last", "flush", "apply1"],
    "C06": ["cancel0", "cancel2", "cancel_mixed", "cancel_twice", "cancel_last"],
    "C07": ["cancel_group0", "cancel_group1", "cancel_all", "regroup", "regroup_map", "cancel_group0_msg", "cancel_all_msg"],
    "C08": ["gac", "regroup", "cancel_then_close", "cancel_then_close_raise", "cancel_close_inline", "cancel_close_inline_rex"],
    "C10": ["cancel_group0", "apply1", "start1", "regroup", "regroup_map"],
    "C11": ["flush", "cancel0", "apply1", "start1"],
    "C12": ["flush_raise", "flush", "gac", "cancel_then_close_raise", "cancel_close_inline"],
    "C13": ["flush", "flush_raise", "cancel0", "cancel_last", "cancel_group0"],
    "C14": ["stop1", "stop2", "stop_all"],
}

_cache = {}
QUICK_CAP = 20000  # larger than every table: the quick tier runs the complete table of single placements as well


def _applicable(base, opname):
    cls = base["pools"][0]["cls"]
    if opname.startswith("stop") or opname == "start1":
        return cls == "S"
    if opname in ("apply1", "regroup"):
        return cls == "T"
    if opname == "regroup_map":
        return cls == "T" and sum(1 for s in base["steps"] if s["op"] in ("apply", "map", "start")) >= 2
    if opname == "cancel_group1":
        return sum(1 for s in base["steps"] if s["op"] in ("apply", "map", "start")) >= 2
    return True


def measure(mods, base):
    """Run the base once: number of loop iterations and user-code points."""
    from .world import World

    sc = copy.deepcopy(base)
    sc.setdefault("final", {"probe": False, "gac": False})
    w = World(sc, mods)
    w.run()
    final_at = next((e[1] for e in w.log if e[0] == "final"), w.loop.vf_iteration)
    return final_at + 1, w.ucp_count


def table(spec_name, mods=None):
    key = spec_name
    if key in _cache:
        return _cache[key]
    if mods is None:
        from . import mods as m

        mods = m.load()
    rows = []
    for bi, base in enumerate(BASES):
        iters, ucps = measure(mods, base)
        for opname in SPECS[spec_name]:
            if not _applicable(base, opname):
                continue
            for it in range(iters + 1):
                rows.append((bi, opname, "head", it))
                rows.append((bi, opname, "tail", it))
            for u in range(ucps):
                rows.append((bi, opname, "ucp", u))
    _cache[key] = rows
    return rows


def count(spec_name, tier):
    n = len(table(spec_name))
    if tier == "quick":
        return min(n, QUICK_CAP)
    return n + 6000  # all single placements + sampled pairs


def build(base, placements):
    sc = copy.deepcopy(base)
    sc["final"] = {"probe": True, "gac": True, "gac_rex": True}
    head, tail = [], []
    for opname, where, at in placements:
        op = copy.deepcopy(OPS[opname])
        if where == "ucp":
            sc.setdefault("ucp_ops", {})[str(at)] = op
        elif where == "head":
            head.append({"op": "intruder", "delay": at, "step": op})
        else:
            tail.append({"op": "intruder", "delay": at, "step": op})
    sc["steps"] = head + sc["steps"] + tail
    sc["sweep"] = [list(p) for p in placements]
    return sc


def case(spec_name, seed, i, tier):
    rows = table(spec_name)
    n = len(rows)
    if tier == "quick":
        # a seed-dependent stride through all single placements
        k = min(n, QUICK_CAP)
        off = seed % max(1, n)
        j = (off + i * max(1, n // k)) % n
        bi, opname, where, at = rows[j]
        return build(BASES[bi], [(opname, where, at)])
    if i < n:
        bi, opname, where, at = rows[i]
        return build(BASES[bi], [(opname, where, at)])
    rng = random.Random(f"{seed}:{spec_name}:pair:{i}")
    bi, opname, where, at = rows[rng.randrange(n)]
    cand = [r for r in rows if r[0] == bi]
    _, op2, where2, at2 = cand[rng.randrange(len(cand))]
    return build(BASES[bi], [(opname, where, at), (op2, where2, at2)])
