"""Pool world: real TaskPool/SimpleTaskPool objects in a monitored loop.

Conductor, workers, callbacks, iterators, event log.  Operations live in
ops.py, oracles in oracles.py.  See DESIGN.md section 3.2.
"""

from __future__ import annotations

import asyncio
import inspect
import logging
from asyncio import CancelledError
from collections import Counter

from .loop import new_loop
from .model import INJECTED_KINDS, FlushRec, Injected, InvRec, PoolRec, ReqRec, TaskRec
from .ops import OpsMixin
from .oracles import OracleMixin

MAX_IDLE_ITERS = 4000
_UNNAMED_SEEN = set()  # names of unnamed pools created in this process


class Gate:
    __slots__ = ("ev", "kind", "t", "open")

    def __init__(self, kind, t):
        self.ev = asyncio.Event()
        self.kind = kind  # 'w' worker, 'cb' callback
        self.t = t
        self.open = False


class Livelock(Exception):
    pass


class World(OpsMixin, OracleMixin):
    def __init__(self, scenario, mods, focus=None, no_faults=False, skip_rejected=False):
        self.skip_rejected = skip_rejected  # twin run: requests the model expects to be rejected are not made at all
        self.no_faults = no_faults  # twin run: every injected body / callback failure is replaced by success at the same point
        self.sc = scenario
        self.mods = mods  # namespace with pool module + exceptions
        self.focus = focus
        self.log = []
        self.viol = []
        self.sit = Counter()
        self.triggers = set()
        self.pools = []
        self.reqs = []
        self.gates = []
        self.bg = []  # intruder tasks
        self.bgk = []  # (kind, pool, task) for flush / gac / waiter calls
        self.by_task = {}
        self.excs = set()
        self.loop = None
        self.loop_errors = []
        self.ucp_count = 0
        self.ucp_ops = {int(k): v for k, v in scenario.get("ucp_ops", {}).items()}
        self.in_ucp_op = False
        self.opsig = []
        self.inconclusive = None
        self.quiescences = 0
        self.draining = False
        self.waiters = []
        self.max_viol = 40
        self.viol_per_clause = {}
        self.unknown_names = 0
        self.checks_on = True
        self.n_instant = 0

    # ------------------------------------------------------------ basics
    def ev(self, kind, *data):
        if not self.checks_on:
            return len(self.log)  # tear-down of the loop: order of forced cancellations is not meaningful
        lp = self.loop
        self.log.append((kind, lp.vf_iteration, lp.vf_handle_no) + data)
        return len(self.log) - 1

    def violate(self, clause, msg, pool=None):
        if self.checks_on and len(self.viol) < self.max_viol:
            n = self.viol_per_clause.get(clause, 0)
            self.viol_per_clause[clause] = n + 1
            if n >= 2:
                return  # keep room for other clauses: a repeated alarm must not crowd out a different one
            v = {"clause": clause, "msg": msg, "at": len(self.log), "triggers": sorted(self.triggers)}
            if pool is not None:
                v["pool"] = pool
            self.viol.append(v)
            if clause.startswith("C10.") and self.excs:
                # "every pending or later request proceeds exactly as if it had succeeded" covers its group bookkeeping
                self.violate("C12.groups_after_failure", "with injected failures in the run: " + msg)

    def new_exc(self, site):
        # user code fails with all sorts of exception classes (TypeError, KeyError, ...): the pool must hand on exactly that object
        e = INJECTED_KINDS[len(self.excs) % len(INJECTED_KINDS)](site)
        self.excs.add(id(e))
        self._exc_keep = getattr(self, "_exc_keep", [])
        self._exc_keep.append(e)
        return e

    def is_injected(self, e):
        return isinstance(e, Injected) and id(e) in self.excs

    # ------------------------------------------------------------ run
    def run(self):
        loop = new_loop()
        self.loop = loop
        loop.set_exception_handler(self._exc_handler)
        loop.vf_after_handle = self._after_handle
        try:
            with asyncio.Runner(loop_factory=lambda: loop) as runner:
                try:
                    runner.run(self._main())
                except Livelock as e:
                    self.inconclusive = f"livelock: {e}"
                finally:
                    loop.vf_after_handle = None
                    self.checks_on = False
                    self.draining = True  # user code started from now on never waits on a gate / queue again
                    # let abandoned gated user code finish so that closing the
                    # loop does not hang / spam; the verdict is already taken
                    for g in list(self.gates):
                        g.ev.set()
                    for _ in getattr(self, "qwaiters", ()):
                        self._libq.put_nowait(None)
                    if self._aux is not None:
                        self._aux._closed.set()  # (harness teardown only: release whoever still waits for the auxiliary pool)
        finally:
            self.by_task.clear()
        return self.result()

    def _exc_handler(self, loop, context):
        exc = context.get("exception")
        self.loop_errors.append((context.get("message", ""), type(exc).__name__ if exc else None, repr(exc)))
        if self.checks_on and exc is not None and not isinstance(exc, (Injected, CancelledError)):
            self.on_internal_error(context.get("message", ""), exc)

    async def _main(self):
        for i, ps in enumerate(self.sc["pools"]):
            self._make_pool(i, ps)
        for step in self.sc["steps"]:
            await self.conduct(step)
            if len(self.viol) >= self.max_viol:
                break
        await self.finale()

    # ------------------------------------------------------------ pools
    def _make_pool(self, i, ps):
        P = self.mods.pool
        size = ps.get("size")
        kw = {}
        if size is not None:
            kw["pool_size"] = size
        if ps.get("name") is not None:
            kw["name"] = ps["name"]  # may be the empty string: such a pool is shown under its index like an unnamed one
        if ps["cls"] == "T":
            obj = P.TaskPool(**kw)
            pr = PoolRec(i, obj, "T", size, ps)
        else:
            pr = PoolRec(i, None, "S", size, ps)
            sreq = ReqRec(len(self.reqs), pr, "sfunc", {"marker": ps.get("marker", True), "fname": ps.get("fname", "sw"),
                                                         "callraise": ps.get("callraise", ()), "bodies": ps.get("bodies", [{}]),
                                                         "ecb": ps.get("ecb"), "ccb": ps.get("ccb")})
            self.reqs.append(sreq)
            pr.sreq = sreq
            func = self.make_func(sreq)
            sreq.args_obj = self.make_args(ps.get("args", 0), sreq)
            sreq.kwargs_obj = self.make_kwargs(ps.get("kwargs"), sreq)
            ckw = dict(kw)
            if sreq.kwargs_obj is not None or ps.get("kwargs_explicit"):
                ckw["kwargs"] = sreq.kwargs_obj
            obj = P.SimpleTaskPool(
                func, args=sreq.args_obj,
                end_callback=self.make_cb(sreq, "e", ps.get("ecb")),
                cancel_callback=self.make_cb(sreq, "c", ps.get("ccb")), **ckw)
            pr.obj = obj
            pr.pstr = str(obj)
        pr.size_track = bool(ps.get("size_track"))
        if not ps.get("name"):
            if pr.pstr in _UNNAMED_SEEN:
                self.violate("C11.pool_names", f"two unnamed pools share the name {pr.pstr!r}")
            _UNNAMED_SEEN.add(pr.pstr)
            self.sit["C11.unnamed_pools"] += 1
        self.pools.append(pr)
        self.ev("pool", i, ps["cls"], size, pr.pstr)
        return pr

    # ------------------------------------------------------------ user code: functions
    def make_args(self, shape, req):
        # unique objects so that identity can be checked
        if shape == "list":
            return [("a", req.idx, 0), ("a", req.idx, 1)]
        if shape == "iter":
            # a one-shot iterator (only for requests with at most one invocation, or rejected ones)
            items = (("a", req.idx, 0), ("a", req.idx, 1))

            class OneShot:
                def __init__(self):
                    self.pulled = 0
                    self._it = iter(items)

                def __iter__(self):
                    return self

                def __next__(self):
                    self.pulled += 1
                    return next(self._it)

            req.args_passed = OneShot()
            return items
        n = int(shape or 0)
        return tuple(("a", req.idx, j) for j in range(n))

    def make_kwargs(self, shape, req):
        if shape is None:
            return None
        return {f"k{j}": ("kw", req.idx, j) for j in range(int(shape))}

    def make_func(self, req):
        world = self
        spec = req.spec
        if spec.get("marker", True):
            def w(*args, **kwargs):
                inv = world._invoke(req, args, kwargs)
                if inv.raised:
                    raise world.new_exc(f"call:{req.idx}:{inv.k}")
                inv.coro = world._body(req, inv)
                return inv.coro
            inspect.markcoroutinefunction(w)
        else:
            async def w(*args, **kwargs):
                inv = world._invoke(req, args, kwargs, at_begin=True)
                return await world._body(req, inv)
        w.__name__ = w.__qualname__ = spec.get("fname", f"w{req.idx}")
        if spec.get("flavour") == "method" and not spec.get("marker", True):
            # a bound coroutine method of a user object
            plain = w

            class Holder:
                async def run(self, *args, **kwargs):
                    return await plain(*args, **kwargs)

            Holder.run.__name__ = Holder.run.__qualname__ = w.__name__
            w = Holder().run
        if spec.get("flavour") in ("partial", "object", "partial_object") and getattr(req, "named", False):
            # callables without __name__ (a functools.partial, an object marked as coroutine function, a partial of
            # such an object): legal as long as the caller names the group
            import functools

            inner = w
            if spec["flavour"] != "partial":
                class Job:
                    def __call__(self, *args, **kwargs):
                        return inner(*args, **kwargs)

                w = Job()
                inspect.markcoroutinefunction(w)
            if spec["flavour"] != "object":
                w = functools.partial(w)
            self.sit["func." + spec["flavour"]] += 1
        req.func = w
        return w

    def _invoke(self, req, args, kwargs, at_begin=False):
        k = len(req.invs)
        inv = InvRec(k, args, kwargs)
        req.invs.append(inv)
        self.ev("invoke", req.idx, k)
        if not at_begin:
            self.on_invoke(req, inv)
            if k in req.callraise and not req.pool.probe_mode:
                inv.raised = True
                req.skipped += 1
            self.ucp(req.pool, ("invoke", req.idx))
        return inv

    def body_spec(self, req, k):
        bodies = req.spec.get("bodies") or [{}]
        if req.pool.probe_mode and req.kind == "sfunc":
            return {"pre": [["g"]]}
        return bodies[k % len(bodies)]

    async def _body(self, req, inv):
        task = asyncio.current_task()
        pr = req.pool
        tid = self.parse_task_name(pr, task.get_name())
        t = self.task_rec(pr, tid)
        t.task = task
        self.by_task[task] = t
        if req.kind == "sfunc":
            if t.req is None:
                self.attribute_s_task(pr, t)
        else:
            if t.req is None:
                t.req = req
            if tid not in req.tids:
                req.tids.append(tid)
        t.inv = inv
        inv.tid = tid
        self.on_begin(pr, req, t, inv)
        t.begun = True
        pr.L += 1
        rq = t.req if t.req is not None else req
        rq.live += 1
        t.events.append("begin")
        self.ev("begin", pr.idx, tid, req.idx, inv.k)
        self.ucp(pr, ("begin", tid))
        spec = self.body_spec(req, inv.k)
        outcome, exc = await self._interp(t, spec)
        t.finished = True
        t.outcome = outcome
        self.uncount(t)
        pr.L -= 1
        rq.live -= 1
        t.events.append("finish:" + outcome)
        self.ev("finish", pr.idx, tid, outcome)
        self.on_finish(pr, t)
        self._advance(t)
        if exc is not None:
            raise exc
        return ("ret", req.idx, inv.k)

    async def _interp(self, t, spec):
        instrs = spec.get("pre", ())
        policy = spec.get("oncancel", "prop")
        pr = t.pool
        for ins in instrs:
            try:
                await self._instr(t, ins)
            except CancelledError as ce:
                self.cancel_seen(t, "w")
                if policy == "prop":
                    return "cancelled", ce
                if policy == "swallow_ret":
                    return "return", None
                if policy == "swallow_cont":
                    continue
                if policy == "raise":
                    return "raise", self.new_exc(f"oncancel:{t.tid}")
                if isinstance(policy, list) and policy[0] == "clean":
                    for _ in range(policy[1]):
                        try:
                            await self._sleep0(t)
                        except CancelledError:
                            self.cancel_seen(t, "w")
                    return "cancelled", ce
                return "cancelled", ce
            if t.pending and ins[0] in ("y", "g", "q", "f", "u") and (ins[0] != "y" or ins[1] > 0) and (ins[0] not in ("q", "f", "u") or t.q_suspended):
                self.delivery_violation(t, f"task {t.tid} resumed normally from a suspension although a cancellation had been requested before (not delivered at its next suspension point)")
                t.pending = False
                t.owed -= 1
            self.ucp(pr, ("resume", t.tid))
        end = spec.get("end", "return")
        if end == "raise":
            if self.no_faults:
                return "return", None
            t.user_raised = self.new_exc(f"body:{t.tid}")
            return "raise", t.user_raised
        if end == "selfcancel_raise":
            # the coroutine itself ends with CancelledError without being cancelled
            return "cancelled", CancelledError()
        return "return", None

    async def _instr(self, t, ins):
        op = ins[0]
        if op == "y":
            for _ in range(ins[1]):
                await self._sleep0(t)
        elif op == "g":
            await self._gate("w", t)
        elif op == "q":
            await self._qblock(t)
        elif op == "u":
            # the worker waits for another pool of the program to be closed: `await other.until_closed()`
            t.q_suspended = False
            if not (self.draining and not self.checks_on):
                aux = self.aux_pool()
                t.q_suspended = True
                self.uwaiters += 1
                self.sit["until_closed.wait" + (".with_others" if self.uwaiters > 1 else "")] += 1
                try:
                    await aux.until_closed()
                finally:
                    self.uwaiters -= 1
        elif op == "f":
            # a housekeeping worker: it awaits flush() of its own pool inline (its suspension point lies inside the pool)
            t.q_suspended = False
            if not (self.draining and not self.checks_on):
                self.sit["flush_inline"] += 1
                await self._flush(t.pool, True, True, None, inline=t)
        elif op == "op":
            self.do_op(ins[1], ("worker", t))

    uwaiters = 0
    _aux = None

    def aux_pool(self):
        if self._aux is None:
            self._aux = self.mods.pool.TaskPool(name="vf-aux")
        return self._aux

    async def close_aux(self):
        aux, self._aux = self._aux, None
        if aux is not None:
            aux.lock()
            await aux.gather_and_close()

    def libq(self):
        q = getattr(self, "_libq", None)
        if q is None:
            q = self._libq = self.mods.queue.Queue()
            self.qwaiters = []
        return q

    async def _qblock(self, t):
        """The worker's suspension point lies inside library code: `async with queue as item` on the library's Queue."""
        t.q_suspended = False
        if self.draining and not self.checks_on:
            return
        q = self.libq()
        t.q_suspended = q.empty()  # with an item at hand the block is entered without suspending
        self.qwaiters.append(t)
        self.sit["q.wait" if t.q_suspended else "q.nowait"] += 1
        self.ev("q_wait", t.pool.idx, t.tid)
        waiting = True
        try:
            async with q as item:
                waiting = False
                self.qwaiters.remove(t)
                self.ev("q_got", t.pool.idx, t.tid, item)
                self.sit["q.got.pending" if t.pending else "q.got"] += 1
        finally:
            if waiting:
                self.qwaiters.remove(t)

    def op_qput(self, step, issuer):
        q = self.libq()
        for _ in range(step.get("n", 1)):
            self._qserial = getattr(self, "_qserial", 0) + 1
            q.put_nowait(self._qserial)
        self.ev("q_put", step.get("n", 1))
        self.sit["q.put.with_waiters" if self.qwaiters else "q.put.idle"] += 1

    async def _sleep0(self, t):
        await asyncio.sleep(0)

    async def _gate(self, kind, t):
        if self.draining and not self.checks_on:
            return
        g = Gate(kind, t)
        self.gates.append(g)
        self.ev("gate_wait", kind, t.pool.idx if t else -1, t.tid if t else -1)
        try:
            await g.ev.wait()
        finally:
            try:
                self.gates.remove(g)
            except ValueError:
                pass

    def cancel_seen(self, t, where):
        t.seen += 1
        t.pending = False
        t.self_pending = False
        t.events.append("cancel_seen")
        self.ev("cancel_seen", t.pool.idx, t.tid, where)
        self.on_cancel_seen(t, where)

    # ------------------------------------------------------------ user code: callbacks
    def make_cb(self, req, kind, spec):
        if not spec:
            return None
        world = self

        def enter(tid):
            return world._cb_enter(req, kind, tid)

        if spec.get("async"):
            async def cb(tid):
                t = enter(tid)
                if t is None:
                    return
                try:
                    for _ in range(spec.get("y", 0)):
                        try:
                            await asyncio.sleep(0)
                        except CancelledError:
                            world.cancel_seen(t, "cb")
                            if spec.get("prop"):
                                world.sit["cb.cancelled_and_propagated"] += 1
                                t.pool.cb_cancel_raised += 1
                                raise  # a callback that does not swallow a cancellation reaching it (abandoned flush / close)
                    if spec.get("gate"):
                        try:
                            await world._gate("cb", t)
                        except CancelledError:
                            world.cancel_seen(t, "cb")
                            if spec.get("prop"):
                                world.sit["cb.cancelled_and_propagated"] += 1
                                t.pool.cb_cancel_raised += 1
                                raise
                    if spec.get("op"):
                        world.do_op(spec["op"], ("cb", t, kind))
                    world.ucp(t.pool, ("cb", t.tid))
                finally:
                    world._cb_exit(t, kind)
                if spec.get("raise") and not world.no_faults:
                    t.user_raised = world.new_exc(f"{kind}cb:{tid}")
                    raise t.user_raised
        else:
            def cb(tid):
                t = enter(tid)
                if t is None:
                    return
                try:
                    if spec.get("op"):
                        world.do_op(spec["op"], ("cb", t, kind))
                    world.ucp(t.pool, ("cb", t.tid))
                finally:
                    world._cb_exit(t, kind)
                if spec.get("raise") and not world.no_faults:
                    t.user_raised = world.new_exc(f"{kind}cb:{tid}")
                    raise t.user_raised
        cb.__name__ = f"{kind}cb{req.idx}"
        if spec.get("partial"):
            # a callback with positional arguments bound in advance: cb(<bound>, task_id)
            import functools

            tag = ("bound", req.idx, kind)
            if spec.get("async"):
                async def bound_cb(a, b, tid):
                    if a is not tag or b != kind:
                        world.violate("C11.cb_id", f"partial callback of request {req.idx} got ({a!r}, {b!r}, {tid!r}); bound were ({tag!r}, {kind!r})")
                    return await cb(tid)
            else:
                def bound_cb(a, b, tid):
                    if a is not tag or b != kind:
                        world.violate("C11.cb_id", f"partial callback of request {req.idx} got ({a!r}, {b!r}, {tid!r}); bound were ({tag!r}, {kind!r})")
                    return cb(tid)
            world.sit["cb.partial_bound_args"] += 1
            return functools.partial(bound_cb, tag, kind)
        if spec.get("obj") and not spec.get("async"):
            # a callable object that collects the ids it is given - and is falsy while it is empty
            class Collector(list):
                def __call__(self, tid):
                    self.append(tid)
                    return cb(tid)

            world.sit["cb.callable_object"] += 1
            return Collector()
        return cb

    def _cb_enter(self, req, kind, tid):
        pr = req.pool
        if not isinstance(tid, int) or isinstance(tid, bool):
            self.violate("C11.cb_id", f"{kind}-callback of request {req.idx} was called with {tid!r} instead of a task id")
            return None
        t = self.task_rec(pr, tid)
        if t.req is None:
            if req.kind == "sfunc":
                self.attribute_s_task(pr, t)
            else:
                t.req = req
                req.tids.append(tid)
        self.ev("cb_enter", pr.idx, tid, kind)
        t.cb_task = asyncio.current_task()
        t.events.append(kind + "cb_enter")
        self.on_cb_enter(pr, req, t, kind)
        if kind == "c":
            t.ccb = 1
        else:
            t.ecb = 1
        pr.cb_in_progress += 1
        for f in pr.flushes:
            if not f.done:
                f.overlap_cb = True
        return t

    def _cb_exit(self, t, kind):
        pr = t.pool
        if kind == "c":
            t.ccb = 2
        else:
            t.ecb = 2
        pr.cb_in_progress -= 1
        t.events.append(kind + "cb_exit")
        self.ev("cb_exit", pr.idx, t.tid, kind)
        self._advance(t)

    def has_cb(self, t, kind):
        rq = t.req
        if rq is None:
            return None
        spec = rq.pool.sreq.spec if rq.kind in ("start", "sfunc") else rq.spec
        return bool(spec.get("ecb" if kind == "e" else "ccb"))

    def _advance(self, t):
        """Decide whether the pool task is completely finished (as far as observable)."""
        if t.complete:
            return
        if t.ecb == 1 or t.ccb == 1:
            return
        if t.ecb == 2:
            self._complete(t)
            return
        if not (t.finished or t.unbegun_cancelled):
            return
        if t.expects_ccb() and t.ccb == 0 and self.has_cb(t, "c"):
            return
        if self.has_cb(t, "e"):
            return
        if t.unbegun_cancelled and t.ccb == 0:
            # no callback configured at all: completion is not observable
            t.done_unknown = True
            if t.pool.flushes and t.forget == "kept":
                t.forget = "maybe"
            return
        self._complete(t)

    def _complete(self, t):
        t.complete = True
        t.events.append("complete")
        self.ev("complete", t.pool.idx, t.tid)
        for f in t.pool.flushes:
            if not f.done and t.forget == "kept":
                t.forget = "maybe"
        self.on_complete(t)

    # ------------------------------------------------------------ user code: iterables
    def make_iterable(self, req):
        spec = req.spec
        n = req.n
        stars = {"map": 0, "starmap": 1, "doublestarmap": 2}[req.kind]
        elems = []
        for i in range(n):
            base = ("e", req.idx, i)
            if i in req.bad:
                # elements whose call raises come short and long (the library logs them), of several types
                variant = (req.idx + i) % 3
                if stars == 1:
                    el = (5, 10 ** 95, None)[variant]  # func(*5) -> TypeError
                elif stars == 2:
                    el = ({1: base}, {1: "pad" * 40, 2: base}, {("k", i): base})[variant]  # func(**{1: ..}) -> TypeError
                else:
                    el = (base, base + ("pad" * 40,), frozenset({base, "pad" * 40}))[variant]  # map: the call itself raises (callraise)
            elif i in req.empties and stars == 1:
                el = () if i % 2 else []  # func() must be called with no argument at all
            elif i in req.empties and stars == 2:
                el = {}
            elif stars == 0:
                el = base
            elif stars == 1:
                el = (base, i)
            else:
                el = {"a": base, "i": i}
            elems.append(el)
        req.elements = elems
        # what is handed to the pool: for the star variants the same contents also as list, one-shot iterator,
        # generator (func(*x)) or as a non-dict mapping (func(**x))
        passed = list(elems)
        if stars and spec.get("marker", True):
            import collections

            for i, el in enumerate(elems):
                if i in req.bad or i in req.empties:
                    continue
                variant = (req.idx * 7 + i) % 5
                if stars == 1 and variant == 1:
                    passed[i] = list(el)
                elif stars == 1 and variant == 2:
                    passed[i] = iter(el)
                elif stars == 1 and variant == 3:
                    passed[i] = (x for x in el)
                elif stars == 2 and variant in (1, 2):
                    passed[i] = collections.UserDict(el) if variant == 1 else collections.OrderedDict(el)
            self.sit["map.element_shapes_varied"] += 1
        elems = passed
        kind = spec.get("iter", "gen")
        if kind == "list":
            req.observable_pulls = False
            return list(elems)
        if kind == "tuple":
            req.observable_pulls = False
            return tuple(elems)
        if kind == "dictvalues":
            req.observable_pulls = False
            return {i: e for i, e in enumerate(elems)}.values()
        world = self
        iter_ops = {int(k): v for k, v in (spec.get("iter_ops") or {}).items()}

        class CountingIter:
            def __init__(self):
                self.i = 0

            def __iter__(self):
                return self

            def __next__(self):
                i = self.i
                world.on_pull(req, i)
                if i in iter_ops:
                    world.do_op(iter_ops[i], ("iter", req))
                if i >= n:
                    req.exhausted = True
                    world.ev("pull_end", req.idx)
                    raise StopIteration
                self.i += 1
                req.pulled = self.i
                world.ev("pull", req.idx, i)
                if i in req.bad:
                    req.skipped += 1 if stars else 0
                world.ucp(req.pool, ("pull", req.idx))
                return elems[i]

        return CountingIter()

    # ------------------------------------------------------------ task records
    def parse_task_name(self, pr, name):
        prefix = pr.pstr + "_Task-"
        if not name.startswith(prefix):
            self.violate("C11.task_name", f"task name {name!r} does not start with {prefix!r}")
            try:
                return int(name.rsplit("-", 1)[1])
            except Exception:
                return -1000 - len(self.log)
        try:
            return int(name[len(prefix):])
        except ValueError:
            self.violate("C11.task_name", f"task name {name!r} has no integer id")
            return -1000 - len(self.log)

    def task_rec(self, pr, tid):
        t = pr.tasks.get(tid)
        if t is None:
            t = TaskRec(pr, tid)
            pr.tasks[tid] = t
            self.on_new_id(pr, tid)
            t.counted = True
            pr.A += 1
            if tid > pr.max_id:
                pr.max_id = tid
            for f in pr.flushes:
                pass
        return t

    def uncount(self, t):
        if t.counted:
            t.counted = False
            t.pool.A -= 1

    def attribute_s_task(self, pr, t):
        """SimpleTaskPool: which start() request a task belongs to is only known via group ids."""
        for name, rq in list(pr.live_groups.items()):
            if rq.kind != "start":
                continue
            try:
                ids = pr.obj.get_group_ids(name)
            except Exception:
                continue
            if t.tid in ids:
                t.req = rq
                if t.tid not in rq.tids:
                    rq.tids.append(t.tid)
                return
        t.req = pr.sreq  # group gone (cancelled) - attribute to the pool function only

    def refresh_created(self, pr):
        """Learn about tasks the pool created but that have not begun (public group ids)."""
        obj = pr.obj
        for name, rq in pr.live_groups.items():
            try:
                ids = obj.get_group_ids(name)
            except Exception:
                continue
            if len(ids) == rq.n_claimed:
                continue
            rq.n_claimed = len(ids)
            for tid in sorted(ids):
                t = pr.tasks.get(tid)
                if t is None:
                    t = self.task_rec(pr, tid)
                if t.claim is None:
                    t.claim = rq
                elif t.claim is not rq:
                    self.violate("C10.disjoint", f"id {tid} listed in group {rq.group!r} and in group {t.claim.group!r}")
                if t.req is None or (t.req.kind == "sfunc" and rq.kind == "start"):
                    t.req = rq

    # ------------------------------------------------------------ hooks
    def _after_handle(self):
        if not self.checks_on:
            return
        for pr in self.pools:
            self.refresh_created(pr)
            self.check_instant(pr, None)

    def ucp(self, pr, where):
        """User-code point: the pool is observed from inside code it runs."""
        if not self.checks_on:
            return
        self.check_instant(pr, where)
        j = self.ucp_count
        self.ucp_count += 1
        if j in self.ucp_ops and not self.in_ucp_op and not pr.probe_mode:
            # (never inside the capacity probe: its gated tasks are the measuring instrument)
            self.in_ucp_op = True
            try:
                t = self.by_task.get(asyncio.current_task())
                issuer = ("worker", t) if t is not None else ("ucp", None)
                if where and where[0] == "cb" and t is not None:
                    issuer = ("cb", t, "?")
                if where and where[0] in ("pull", "invoke"):
                    issuer = ("iter", self.reqs[where[1]]) if where[0] == "pull" else ("call", self.reqs[where[1]])
                self.do_op(self.ucp_ops[j], issuer)
            finally:
                self.in_ucp_op = False

    # ------------------------------------------------------------ conductor
    async def conduct(self, step):
        op = step["op"]
        if op == "y":
            for _ in range(step.get("k", 1)):
                await asyncio.sleep(0)
        elif op == "idle":
            await self.idle()
        elif op == "intruder":
            self.bg.append(asyncio.ensure_future(self._intruder(step["delay"], step["step"])))
        elif op == "flush":
            self.start_flush(step, ("conductor",))
        elif op == "gac":
            self.start_gac(step, ("conductor",))
        elif op == "probe":
            await self.idle()
            for pr in self.pools:
                await self.capacity_probe(pr, final=False)
        else:
            self.do_op(step, ("conductor",))

    async def _intruder(self, delay, step):
        for _ in range(delay):
            await asyncio.sleep(0)
        self.ev("intruder", step["op"])
        if step["op"] == "flush":
            self.start_flush(step, ("intruder",))
        elif step["op"] == "gac":
            self.start_gac(step, ("intruder",))
        else:
            self.do_op(step, ("intruder",))
            tg = step.get("then_gac")
            if tg is not None:
                # the same coroutine goes on to close the pool without yielding: `pool.cancel_all(); await pool.gather_and_close()`
                pr = self.pools[tg["pool"]]
                if not (pr.closing or pr.closed) and not (pr.size == 0 and self.pending_work(pr)):
                    pr.closing = True
                    self.sit["C08.close_in_the_same_handle_as_cancel"] += 1
                    await self._gac(pr, tg.get("rex", False), 0)

    async def idle(self, quiet=False):
        lp = self.loop
        clean = 0
        start_iter = lp.vf_iteration
        while True:
            n0 = lp.vf_handle_no
            await asyncio.sleep(0)
            if lp.vf_handle_no == n0 + 1 and not lp.vf_timers() and not lp.vf_io_sources():
                clean += 1
                if clean >= 2:
                    break
            else:
                clean = 0
            if lp.vf_iteration - start_iter > MAX_IDLE_ITERS:
                raise Livelock(f"no quiescence within {MAX_IDLE_ITERS} iterations")
        self.quiescences += 1
        self.ev("quiescent")
        if not quiet and self.checks_on:
            self.on_quiescence()

    def open_gates(self, sel):
        gs = list(self.gates)
        if not gs:
            return 0
        kind = sel[0]
        if kind == "all":
            chosen = gs
        else:
            cand = [g for g in gs if kind == "any" or g.kind == kind]
            if not cand:
                return 0
            chosen = [cand[sel[1] % len(cand)]]
        for g in chosen:
            if not g.open:
                g.open = True
                g.ev.set()
                self.ev("gate_open", g.kind, g.t.pool.idx if g.t else -1, g.t.tid if g.t else -1)
        return len(chosen)

    async def drain(self):
        """Open every gate until nothing waits on one; then the world is as finished as it gets."""
        self.draining = True
        for _ in range(200):
            await self.idle(quiet=True)
            qw = len(getattr(self, "qwaiters", ()))
            if not self.gates and not qw and not self.uwaiters:
                break
            self.open_gates(("all",))
            if self.uwaiters:
                await self.close_aux()
            if qw:
                self.op_qput({"n": qw}, ("conductor",))
        else:
            raise Livelock("gates keep appearing")
        self.draining = False

    async def finale(self):
        await self.drain()
        self.ev("final")
        self.on_quiescence(final=True)
        self.final_checks()
        fin = self.sc.get("final", {})
        if fin.get("probe", True):
            for pr in self.pools:
                await self.capacity_probe(pr, final=True)
        if fin.get("gac"):
            for pr in self.pools:
                if not pr.closed and not pr.closing and (pr.size != 0 or not self.pending_work(pr)):
                    self.start_gac({"op": "gac", "pool": pr.idx, "rex": fin.get("gac_rex", True), "waiters": 1}, ("conductor",))
            await self.drain()
            self.on_quiescence(final=True)
            self.final_checks(after_close=True)
        self.collect_task_errors()

    # ------------------------------------------------------------ result
    def result(self):
        kinds = [e[0] for e in self.log]
        bigrams = Counter(zip(kinds, kinds[1:]))
        return {
            "viol": self.viol,
            "sit": dict(self.sit),
            "triggers": sorted(self.triggers),
            "opsig": self.opsig,
            "bigram_sig": hash(tuple(sorted(bigrams.items()))) & 0xFFFFFFFF,
            "events": len(self.log),
            "iterations": self.loop.vf_iteration if self.loop else 0,
            "handles": self.loop.vf_handle_no if self.loop else 0,
            "quiescences": self.quiescences,
            "inconclusive": self.inconclusive,
            "loop_errors": self.loop_errors[:5],
            "ucp": self.ucp_count,
        }

    def dump_log(self, last=None):
        rows = self.log if last is None else self.log[-last:]
        return [" ".join(str(x) for x in e) for e in rows]
