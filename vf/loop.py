"""MonitoredLoop: a SelectorEventLoop that tells the harness about every handle.

Nothing here changes scheduling: handles still run FIFO, one at a time.  The
loop only *observes* (iteration counter, handle counter, a hook after every
handle).  See DESIGN.md section 3.1.
"""

from __future__ import annotations

import asyncio
import selectors


class MonitoredLoop(asyncio.SelectorEventLoop):
    def __init__(self, selector=None):
        super().__init__(selector)
        self.vf_iteration = 0  # number of _run_once calls so far
        self.vf_handle_no = 0  # handles started so far
        self.vf_iter_handles = 0  # handles started in the current iteration
        self.vf_prev_iter_handles = 0
        self.vf_after_handle = None  # callable() or None
        self.vf_iter_start = None  # callable() or None
        self.vf_in_handle = False

    # -- observation -----------------------------------------------------
    def _run_once(self):
        self.vf_iteration += 1
        self.vf_prev_iter_handles = self.vf_iter_handles
        self.vf_iter_handles = 0
        cb = self.vf_iter_start
        if cb is not None:
            cb()
        super()._run_once()

    def _vf_run(self, callback, args):
        self.vf_handle_no += 1
        self.vf_iter_handles += 1
        self.vf_in_handle = True
        try:
            callback(*args)
        finally:
            self.vf_in_handle = False
            cb = self.vf_after_handle
            if cb is not None:
                cb()

    def call_soon(self, callback, *args, context=None):
        return super().call_soon(self._vf_run, callback, args, context=context)

    def call_at(self, when, callback, *args, context=None):
        return super().call_at(when, self._vf_run, callback, args, context=context)

    # call_soon_threadsafe is only used by the loop's own machinery
    # (subprocess watcher, getaddrinfo executor) - leave it unobserved but
    # counted, so that quiescence checks see the activity.
    def call_soon_threadsafe(self, callback, *args, context=None):
        return super().call_soon_threadsafe(self._vf_run, callback, args, context=context)

    # -- helpers for quiescence -----------------------------------------
    def vf_timers(self):
        return [h for h in self._scheduled if not h._cancelled]

    def vf_io_sources(self):
        """File objects registered with the selector, minus the self-pipe."""
        try:
            m = self._selector.get_map()
        except Exception:
            return []
        if m is None:
            return []
        out = []
        ssock = getattr(self, "_ssock", None)
        sfd = ssock.fileno() if ssock is not None else -1
        for key in list(m.values()):
            if key.fd == sfd:
                continue
            out.append(key)
        return out


ENV = {"custom_task_factory": False}  # part of the environment of an execution, set by vf/child.py


def _plain_task_factory(loop, coro, **kwargs):
    """What many applications install (to name or wrap their tasks): an ordinary, lazy task factory."""
    return asyncio.Task(coro, loop=loop, **kwargs)


def new_loop():
    loop = MonitoredLoop(selectors.DefaultSelector())
    if ENV["custom_task_factory"]:
        loop.set_task_factory(_plain_task_factory)
    return loop
