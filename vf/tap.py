"""sys.monitoring tap (secondary, evidence only): at which lines of the repository's own code did thrown-in cancellations
land and exceptions get raised during the monitored executions.  Never part of a verdict."""

from __future__ import annotations

import sys
from collections import Counter

TOOL = 4
_state = {"on": False, "codes": None}
throws = Counter()
raises = Counter()


def _codes(mods):
    import types

    out = []
    seen = set()

    def walk(code):
        if code in seen:
            return
        seen.add(code)
        out.append(code)
        for c in code.co_consts:
            if isinstance(c, types.CodeType):
                walk(c)

    names = ["pool", "queue", "session", "server", "parser"]
    for n in names:
        m = getattr(mods, n, None)
        if m is None:
            continue
        for obj in vars(m).values():
            if isinstance(obj, type) and obj.__module__ == m.__name__:
                for f in vars(obj).values():
                    f = getattr(f, "__func__", f)
                    f = getattr(f, "fget", f) or f
                    code = getattr(f, "__code__", None)
                    if code is not None:
                        walk(code)
            elif hasattr(obj, "__code__") and getattr(obj, "__module__", None) == m.__name__:
                walk(obj.__code__)
    return out


def _line(code, offset):
    for start, end, line in code.co_lines():
        if start <= offset < end:
            return line
    return code.co_firstlineno


def _on_throw(code, offset, exc):
    if code not in _state["codeset"]:
        return
    throws[f"{code.co_qualname}:{_line(code, offset)}:{type(exc).__name__}"] += 1


def _on_raise(code, offset, exc):
    if code not in _state["codeset"]:
        return
    raises[f"{code.co_qualname}:{_line(code, offset)}:{type(exc).__name__}"] += 1


def start(mods):
    if _state["on"] or not hasattr(sys, "monitoring"):
        return False
    mon = sys.monitoring
    try:
        mon.use_tool_id(TOOL, "vf-tap")
    except ValueError:
        return False
    ev = mon.events
    mon.register_callback(TOOL, ev.PY_THROW, _on_throw)
    mon.register_callback(TOOL, ev.RAISE, _on_raise)
    codes = _codes(mods)
    _state["codeset"] = set(codes)
    mon.set_events(TOOL, ev.PY_THROW | ev.RAISE)  # these two are global-only events in 3.12; the callbacks filter by code object
    _state["on"] = True
    _state["codes"] = codes
    return True


def stop():
    if not _state["on"]:
        return
    mon = sys.monitoring
    mon.set_events(TOOL, 0)
    mon.register_callback(TOOL, mon.events.PY_THROW, None)
    mon.register_callback(TOOL, mon.events.RAISE, None)
    mon.free_tool_id(TOOL)
    _state["on"] = False


def drain():
    t, r = dict(throws), dict(raises)
    throws.clear()
    raises.clear()
    return t, r
