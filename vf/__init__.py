"""Runtime-monitoring harness for asyncio-taskpool (see /verif/DESIGN.md)."""
