"""C18: a session survives any input, answers every line exactly once, replies are isolated."""

from __future__ import annotations

import asyncio
import random
import string

from . import control, targets
from .control import ControlWorld, gen_command, public_members

WAITERS = ("gather-and-close", "until-closed", "flush")
PROBES = {"num-running": "num_running", "num-cancelled": "num_cancelled", "num-ended": "num_ended",
          "is-locked": "is_locked", "is-full": "is_full", "pool-size": "pool_size"}
from .snap import GROUPS, snapshot  # noqa: E402,F401


def junk(rng):
    n = rng.choice([1, 3, 8, 20, 60, 200, 1000, 4000])
    kind = rng.random()
    if kind < 0.4:
        alphabet = string.ascii_letters + string.digits + string.punctuation + "    "
    elif kind < 0.6:
        alphabet = "-=[](){}'\",.:;<>!?*&^%$#@~`|\\/ "
    elif kind < 0.8:
        alphabet = "äöüßéèñøłжщю中文字🙂🚀 abc-="
    else:
        alphabet = "([{"
    s = "".join(rng.choice(alphabet) for _ in range(n)).strip()
    return s or "?"


def invalid_line(cls, rng, helps):
    """Lines that are invalid by construction."""
    k = rng.randrange(7)
    names = [n.replace("_", "-") for n, _ in public_members(cls)]
    if k == 6:  # a number, but not one a pool size can be: answered with the error, nothing changes
        return f"pool-size {rng.choice(['-1', '-2', '-7'])}"
    if k == 0:
        return rng.choice(["frobnicate", "apply_", "CANCEL", "num_running", "exit", "help", "quit", "_task-name", "pool.size"]) + rng.choice(["", " 1", " --x"])
    if k == 1:  # missing required positional
        return rng.choice([c for c in ["apply", "map", "starmap", "doublestarmap", "cancel-group", "start", "stop"] if c in names])
    if k == 2:  # non-numeric text for an int
        c = rng.choice([c for c in ["cancel", "start", "stop", "pool-size"] if c in names])
        return f"{c} {rng.choice(['abc', '1.5', '0x', 'one', '1,2'])}"
    if k == 3:  # unknown option
        return f"{rng.choice(names)} --zzz{rng.choice(['', '=1', ' 5'])}"
    if k == 4:  # surplus positional
        c = rng.choice([c for c in ["lock", "unlock", "num-running", "is-full", "cancel-all", "stop-all", "func-name"] if c in names])
        return f"{c} surplus {rng.randint(0, 9)}"
    c = rng.choice([c for c in ["apply", "map"] if c in names] or ["cancel-group"])
    if c == "cancel-group":
        return "cancel-group"
    return f"{c} no.such.module.func" + (" [1]" if c == "map" else "")


def mutate(line, rng):
    toks = line.split(" ")
    k = rng.randrange(6)
    if k == 0 and len(toks) > 1:
        del toks[rng.randrange(len(toks))]
    elif k == 1:
        i = rng.randrange(len(toks))
        toks.insert(i, toks[i])
    elif k == 2 and len(toks) > 2:
        i, j = rng.sample(range(len(toks)), 2)
        toks[i], toks[j] = toks[j], toks[i]
    elif k == 3:
        for i, t in enumerate(toks[:-1]):
            if t.startswith("--"):
                toks[i:i + 2] = [t + "=" + toks[i + 1]]
                break
    elif k == 4:
        for i, t in enumerate(toks):
            if t.startswith("--") and len(t) > 5:
                toks[i] = t[: rng.randint(4, len(t) - 1)]
                break
    else:
        toks.append(rng.choice(["", "-", "--", "-1", "x"]))
    return " ".join(toks).strip() or "x"


def gen_scenario(rng):
    cls = rng.choice(["T", "T", "S"])
    nsess = rng.choice([1, 1, 2, 3])
    sc = {"cls": cls, "size": rng.choice([None, 1, 2, 5]), "widths": [rng.choice([80, 80, 40, 120, rng.randint(30, 200)]) for _ in range(nsess)],
          "pre": rng.choice([0, 0, 1, 2, 3]), "seed": rng.getrandbits(48), "n": rng.randint(6, 30) if rng.random() > 0.08 else rng.randint(80, 160), "sfunc": rng.choice(["work", "work", "block", "fail"])}
    sc["shrunk"] = rng.random() < 0.4
    if sc["shrunk"]:
        sc["pre"] = rng.choice([2, 3])
    return sc


class World(ControlWorld):
    def __init__(self, mods, sc):
        super().__init__(mods)
        self.sc = sc
        self.parked = {}
        self.refs = {}

    def make_pool(self):
        P = self.mods.pool
        kw = {} if self.sc["size"] is None else {"pool_size": self.sc["size"]}
        if self.sc["cls"] == "T":
            return P.TaskPool(name="p", **kw)
        return P.SimpleTaskPool(getattr(targets, self.sc.get("sfunc", "work")), args=(1,), name="p", **kw)

    async def ref_reply(self, width, line):
        if width not in self.refs:
            pool = self.make_pool()
            self.refs[width] = await self.open(pool, width, handshake_clause="C18.alive")
        s = self.refs[width]
        if s.task is None or s.task.done():
            return None
        before = snapshot(s.pool)
        got = await self.send(s, line)
        if snapshot(s.pool) != before:
            return None  # not state independent after all; do not compare
        return b"".join(got)

    async def check_parked(self):
        for s in list(self.parked):
            if s.task.done():
                exc = None if s.task.cancelled() else s.task.exception()
                self.violate("C18.alive", f"the session parked in {self.parked[s]!r} ended: {'cancelled' if s.task.cancelled() else type(exc).__name__ if exc else 'returned'}")
                del self.parked[s]
                continue
            w = s.new_writes()
            if not w:
                continue
            if len(w) != 1:
                self.violate("C18.one_reply", f"waiting command {self.parked[s]!r} was answered with {len(w)} writes: {w!r}")
            if not w[0].endswith(b"\n"):
                self.violate("C18.one_reply", f"waiting command {self.parked[s]!r} answered with an unterminated reply {w[0][:40]!r}")
            # (an empty line is a reply like any other: it is what str() of a message-less exception gives)
            self.note("released", self.parked[s], w)
            self.sit["C18.waiting_released"] += 1
            del self.parked[s]

    async def _main(self):
        rng = random.Random(self.sc["seed"])
        pool = self.make_pool()
        cls = type(pool)
        tok = targets.side.set("pre")
        for i in range(self.sc["pre"]):
            if self.sc["cls"] == "T":
                pool.apply(targets.block if self.sc.get("shrunk") else rng.choice([targets.block, targets.work, targets.fail]), args=(i,), num=rng.choice([1, 2]))
            else:
                pool.start(rng.choice([1, 2]))
        targets.side.reset(tok)
        await self.idle()
        if self.sc.get("shrunk") and pool.num_running > 1:
            # the pool was made smaller than what is running in it before the clients arrive
            pool.pool_size = pool.num_running - 1
            self.sit["C18.pool_shrunk_below_running"] += 1
        sessions = []
        for w in self.sc["widths"]:
            s = await self.open(pool, w, handshake_clause="C18.alive")
            if s.handshake_exc is not None:
                return
            sessions.append(s)
        last_long = {}
        for step in range(self.sc["n"]):
            free = [s for s in sessions if s not in self.parked]
            if not free:
                break
            if rng.random() < 0.1:
                # the program that serves the pool also uses it directly
                tok = targets.side.set("pre")
                try:
                    what = rng.choice(["lock", "unlock", "spawn", "cancel_all", "pool_size", "give_up_waiting", "give_up_waiting"])
                    if what == "spawn":
                        if not pool.is_locked:
                            (pool.apply(targets.work, args=(step,)) if self.sc["cls"] == "T" else pool.start(1))
                    elif what == "pool_size":
                        pool.pool_size = rng.choice([1, 2, 5, 9])
                    elif what == "give_up_waiting":
                        # application code waits for the close of the pool and gives up (a timeout): nobody else is concerned
                        waiter = asyncio.ensure_future(pool.until_closed())
                        await self.idle()
                        waiter.cancel()
                        self.sit["C18.direct_waiter_gave_up" + (".while_parked" if self.parked else "")] += 1
                    else:
                        getattr(pool, what)()
                except Exception as e:  # noqa: BLE001
                    self.note("direct", what, "raised", type(e).__name__)
                finally:
                    targets.side.reset(tok)
                await self.idle()
                self.sit["C18.direct_use_between_lines"] += 1
            s = rng.choice(free)
            x = rng.random()
            if rng.random() < 0.1 and not pool.is_locked:
                # a client that does not wait for replies: a request and the cancellation of everything in one segment
                # (the spawner is then cancelled before it has taken a single step)
                spawn = "start 2" if self.sc["cls"] != "T" else f"apply vf.targets.{rng.choice(['work', 'block'])} --num 2"
                menu = [spawn, "cancel-all", "cancel-all --msg bye", "pool-size", f"pool-size {rng.choice([1, 2, 3])}", "num-running", "is-full", "flush -r"]
                k = rng.random()
                if k < 0.4:
                    lines = [spawn, rng.choice(["cancel-all", "cancel-all --msg bye"])]
                elif k < 0.7:
                    lines = [rng.choice(["cancel-all", "cancel-all --msg bye"]), rng.choice(["pool-size", f"pool-size {rng.choice([1, 2, 3])}", "is-full"])]
                else:
                    lines = [rng.choice(menu) for _ in range(rng.choice([2, 3]))]
                both = await self.send_batch(s, lines)
                self.sit["C18.pipelined_spawn_cancel"] += 1
                if len(both) != len(lines):
                    self.violate("C18.one_reply", f"the lines {lines} in one segment produced {len(both)} writes: {[b[:40] for b in both]}")
                if s.task.done():
                    exc = None if s.task.cancelled() else s.task.exception()
                    self.violate("C18.alive", f"the session ended after the pipelined lines {lines}: {type(exc).__name__ if exc else 'returned'}: {exc}")
                    return
                continue
            if x < 0.05:
                kind, line = "valid", rng.choice(["flush", "flush", "gather-and-close", "flush -r", "until-closed"])
            elif x < 0.22:
                kind, line = "valid", gen_command(cls, rng).line
            elif x < 0.40:
                kind, line = "invalid", invalid_line(cls, rng, None)
            elif x < 0.52:
                c = rng.choice([n.replace("_", "-") for n, _ in public_members(cls)] + [""])
                kind, line = "help", (c + " " + rng.choice(["-h", "--help"])).strip()
            elif x < 0.64:
                kind, line = "junk", junk(rng)
            elif x < 0.76:
                kind, line = "mutant", mutate(gen_command(cls, rng).line, rng)
            else:
                kind, line = "probe", rng.choice(list(PROBES))
            before = snapshot(pool)
            others = [(o, len(o.writer.writes)) for o in sessions if o is not s]
            mode = rng.random()
            if mode < 0.15 and len(line) > 1:
                got = await self.send(s, line, split=rng.random())
                self.sit["C18.split_lines"] += 1
            elif mode < 0.25 and kind in ("invalid", "help", "probe", "junk"):
                # two complete lines in one segment: the first one is a probe whose reply is known
                first = rng.choice(list(PROBES))
                want_first = (str(getattr(pool, PROBES[first])) + "\n").encode()
                both = await self.send_batch(s, [first, line])
                self.sit["C18.batched_lines"] += 1
                if len(both) != 2:
                    self.violate("C18.one_reply", f"two lines in one segment ({first!r}, {line[:60]!r}) produced {len(both)} writes")
                    continue
                if both[0] != want_first:
                    self.violate("C18.probe_exact", f"batched {first} answered {both[0][:80]!r}, expected {want_first!r}")
                got = both[1:]
            else:
                got = await self.send(s, line)
            await self.check_parked()
            self.note(kind, repr(line[:120]), "->", [g[:80] for g in got])
            self.sit["C18.lines." + kind] += 1
            if s.task.done():
                exc = None if s.task.cancelled() else s.task.exception()
                self.violate("C18.alive", f"the session ended after line {line[:80]!r}: {type(exc).__name__ if exc else 'returned'}: {exc}")
                return
            for o, n0 in others:
                if o not in self.parked and o.seen < len(o.writer.writes):
                    extra = o.new_writes()
                    self.violate("C18.isolation", f"a line sent on one session produced {len(extra)} write(s) on another session: {extra[0][:60]!r}")
            if len(got) == 0:
                first = line.split(" ")[0]
                if first in WAITERS and kind in ("valid", "mutant"):
                    self.parked[s] = line
                    self.sit["C18.waiting_parked"] += 1
                    continue
                self.violate("C18.one_reply", f"no reply to {kind} line {line[:80]!r}")
                continue
            if len(got) != 1:
                self.violate("C18.one_reply", f"{len(got)} writes for {kind} line {line[:80]!r}: {[g[:40] for g in got]}")
                continue
            reply = got[0]
            if not reply.endswith(b"\n") or (kind in ("invalid", "help") and not reply.strip()):
                self.violate("C18.answered", f"empty / unterminated reply {reply[:40]!r} to {kind} line {line[:80]!r}")
            text = reply.decode(errors="replace")
            after = snapshot(pool)
            if kind in ("invalid", "help") and after != before:
                self.violate("C18.invalid_no_change", f"{kind} line {line[:80]!r} changed the pool: {before} -> {after}")
            if text.lstrip().startswith("usage:") and after != before:
                self.violate("C18.usage_no_change", f"line {line[:80]!r} was answered with a usage message but changed the pool")
            if kind in ("invalid", "help"):
                ref = await self.ref_reply(s.width, line)
                if ref is not None:
                    if ref != reply:
                        self.violate("C18.isolation", f"reply to state-independent line {line[:60]!r} differs from a fresh session's: {reply[:120]!r} vs {ref[:120]!r}"
                                     + (f" (previous reply on this session was {last_long.get(s, 0)} bytes)"))
                    else:
                        self.sit["C18.isolation_ok"] += 1
                        if last_long.get(s, 0) > len(reply):
                            self.sit["C18.short_after_long"] += 1
            if kind == "probe":
                want = (str(getattr(pool, PROBES[line])) + "\n").encode()
                if reply != want:
                    self.violate("C18.probe_exact", f"{line} answered {reply[:80]!r}, expected {want!r} (previous reply on this session: {last_long.get(s, 0)} bytes)")
                else:
                    self.sit["C18.probe_ok"] += 1
                    if last_long.get(s, 0) > len(reply):
                        self.sit["C18.short_after_long"] += 1
            last_long[s] = len(reply)
        # release everything that waits
        targets.release_event().set()
        await self.idle()
        await self.check_parked()
        if self.parked:
            rel = await self.open(pool, 80, handshake_clause="C18.alive")
            if rel.task is not None:
                await self.send(rel, "cancel-all")
                await self.check_parked()
                if self.parked:
                    got = await self.send(rel, "gather-and-close --return-exceptions")
                    self.note("release: gather-and-close ->", got)
                    await self.check_parked()
            for s, line in self.parked.items():
                self.violate("C18.one_reply", f"waiting command {line!r} was never answered although the pool is closed and idle")
        for s in sessions:
            if s.task.done():
                self.violate("C18.alive", "a session ended before its client disconnected")
            if s.new_writes():
                self.violate("C18.one_reply", "surplus writes at the end of the session")
            s.reader.feed_eof()
        await self.idle()
        for s in sessions:
            if not s.task.done() and s not in self.parked:
                self.violate("C18.alive", "listen() did not return after the client disconnected")
            elif s.task.done() and not s.task.cancelled() and s.task.exception() is not None:
                self.violate("C18.alive", f"listen() raised {s.task.exception()!r} on disconnect")
        for r in self.refs.values():
            r.reader.feed_eof()
        await self.idle()


# ---------------------------------------------------------------------- the same over a real server
from . import c19  # noqa: E402


class SocketWorld(c19.World):
    """Several clients of one real control server: each line is answered to the client that sent it, whoever connected first leaves."""

    def violate(self, clause, msg):
        if not clause.startswith("C18."):
            clause = "C18.alive"
        super().violate(clause, msg)

    async def _main2(self):
        sc = self.sc
        started = await self.start_server(clause="C18.alive")
        if started is None:
            return
        srv, task = started
        rng = random.Random(sc["seed"])
        cls = type(self.pool)
        n = sc["nclients"]
        for c in range(n):
            await self.connect(c)
        alive = [c for c in range(n) if self.clients.get(c) is not None and self.clients[c].open]
        for step in range(sc["n"]):
            if not alive:
                break
            x = rng.random()
            if x < 0.12 and len(alive) > 1:
                # somebody leaves - preferably whoever connected first - and everybody else must stay served
                c = alive[0] if rng.random() < 0.6 else rng.choice(alive)
                await self.disconnect(self.clients[c], rng.choice(["close", "eof", "abort"]))
                alive.remove(c)
                self.sit["C18.socket_client_left"] += 1
                continue
            c = rng.choice(alive)
            cl = self.clients[c]
            if x < 0.5:
                key = rng.choice(list(PROBES))
                got = await self.command(cl, key)
                want = (str(getattr(self.pool, PROBES[key])) + "\n").encode()
                if got != want:
                    self.violate("C18.probe_exact", f"client {c} of {sorted(alive)}: {key} answered {got[:80]!r}, expected {want!r}")
                    return
                self.sit["C18.socket_probe_ok"] += 1
            elif x < 0.75:
                line = invalid_line(cls, rng, None)
                before = snapshot(self.pool)
                got = await self.command(cl, line)
                if not got.strip():
                    self.violate("C18.answered", f"client {c}: no / empty reply to {line!r} over the socket")
                    return
                if snapshot(self.pool) != before:
                    self.violate("C18.invalid_no_change", f"client {c}: invalid line {line!r} changed the pool")
                self.sit["C18.socket_invalid_ok"] += 1
            else:
                line = rng.choice(["lock", "unlock", "cancel-all", "flush -r", "get-group-ids"])
                got = await self.command(cl, line)
                if not got:
                    self.violate("C18.one_reply", f"client {c}: no reply to {line!r} over the socket")
                    return
            for o in alive:
                if o != c and self.clients[o].inbox:
                    self.violate("C18.isolation", f"client {o} received {self.clients[o].take()[:60]!r} although client {c} sent the line")
                    return
        if sc.get("stop_while_waiting") and alive:
            # a client waits inside a waiting command; the program stops the control server, then ends the wait itself:
            # the command was accepted and executed, so its one reply is still owed to that client
            c = alive[0]
            cl = self.clients[c]
            got = await self.command(cl, "until-closed")
            if got:
                self.violate("C18.one_reply", f"until-closed answered {got!r} although the pool is open")
            task.cancel()
            self.stopped = True
            await self.settle()
            closing = asyncio.ensure_future(self.pool.gather_and_close(return_exceptions=True))
            await self.settle()
            if not closing.done():
                closing.cancel()
                self.sit["C18.socket_close_blocked"] += 1
            else:
                got = cl.take()
                if got != b"True\n":
                    self.violate("C18.one_reply", f"the reply to until-closed after the pool was closed (server stopped meanwhile) is {got!r}, expected b'True\\n'")
                else:
                    self.sit["C18.socket_reply_after_stop"] += 1
            alive = [a for a in alive]
        for c in list(alive):
            await self.disconnect(self.clients[c], "close")
        if not self.stopped:
            task.cancel()
            self.stopped = True
        await self.settle()


def gen_socket_case(rng):
    return {"sockets": True, "transport": rng.choice(["unix", "unix", "tcp"]), "cls": rng.choice(["T", "S"]), "order": [], "nclients": rng.choice([2, 2, 3]),
            "n": rng.randint(6, 16), "seed": rng.getrandbits(32), "stop_while_waiting": rng.random() < 0.4}
