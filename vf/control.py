"""Control world: the real ControlSession + ControlParser + pool, fed through a real StreamReader.

The command grammar is built from the pool classes (inspect), never from the parser.
"""

from __future__ import annotations

import asyncio
import contextlib
import importlib
import inspect
import io
import json
import logging
import sys
from collections import Counter

from . import targets
from .loop import new_loop
from .world import MAX_IDLE_ITERS, Livelock


def load_control(mods):
    mods.session = importlib.import_module("asyncio_taskpool.control.session")
    mods.server = importlib.import_module("asyncio_taskpool.control.server")
    mods.parser = importlib.import_module("asyncio_taskpool.control.parser")
    mods.client = importlib.import_module("asyncio_taskpool.control.client")
    return mods


_SERVER_CLASSES = {}


def in_memory_server(mods, pool):
    """A real (never started) control server object whose only deviation is that it reports itself as serving:
    sessions get every attribute a real server has, the transport is replaced at the ControlSession boundary."""
    base = mods.server.UnixControlServer
    cls = _SERVER_CLASSES.get(base)
    if cls is None:
        class InMemoryServer(base):
            def is_serving(self):
                return True

        cls = _SERVER_CLASSES[base] = InMemoryServer
    return cls(pool, socket_path="/nonexistent/vf-in-memory.sock")


class RecWriter:
    def __init__(self, world):
        self.world = world
        self.writes = []
        self.closed = False

    def write(self, data):
        self.writes.append((self.world.loop.vf_handle_no, bytes(data)))

    def writelines(self, lines):
        for ln in lines:
            self.write(ln)

    async def drain(self):
        return None

    def close(self):
        self.closed = True

    def is_closing(self):
        return self.closed

    async def wait_closed(self):
        return None

    def get_extra_info(self, name, default=None):
        return default

    def can_write_eof(self):
        return False


class Sess:
    def __init__(self, world, pool, width):
        self.world = world
        self.pool = pool
        self.width = width
        self.reader = asyncio.StreamReader()
        self.writer = RecWriter(world)
        self.session = world.mods.session.ControlSession(world.server_for(pool), self.reader, self.writer)
        self.task = None
        self.handshake_exc = None
        self.seen = 0

    def new_writes(self):
        w = self.writer.writes[self.seen:]
        self.seen = len(self.writer.writes)
        return [d for _, d in w]


class ControlWorld:
    """Base: monitored loop, stdout/stderr capture, sessions, quiescence."""

    def __init__(self, mods):
        self.mods = mods
        self.viol = []
        self.sit = Counter()
        self.loop = None
        self.inconclusive = None
        self.log = []
        self.out = io.StringIO()
        self.err = io.StringIO()
        self.exited = None

    def violate(self, clause, msg):
        if len(self.viol) < 8:
            self.viol.append({"clause": clause, "msg": msg, "at": len(self.log), "triggers": sorted(getattr(self, "triggers", ()))})

    def server_for(self, pool):
        """One server object per pool, shared by all sessions on that pool (as with a real server)."""
        servers = self.__dict__.setdefault("_servers", {})
        if id(pool) not in servers:
            servers[id(pool)] = in_memory_server(self.mods, pool)
        return servers[id(pool)]

    def note(self, *a):
        self.log.append(" ".join(str(x) for x in a))

    def run(self):
        loop = new_loop()
        self.loop = loop
        self.loop_errors = []
        loop.set_exception_handler(lambda lp, ctx: self.loop_errors.append(ctx))
        targets.reset()
        old_out, old_err = sys.stdout, sys.stderr
        sys.stdout, sys.stderr = self.out, self.err
        try:
            with asyncio.Runner(loop_factory=lambda: loop) as runner:
                try:
                    runner.run(self._main())
                except Livelock as e:
                    self.inconclusive = str(e)
                except SystemExit as e:
                    self.exited = e
        except SystemExit as e:
            self.exited = e
        finally:
            sys.stdout, sys.stderr = old_out, old_err
        if self.exited is not None:
            self.violate("C18.no_exit", f"SystemExit({self.exited.code}) escaped from the session")
        if self.out.getvalue() or self.err.getvalue():
            self.violate("C18.silent", f"server process printed: stdout={self.out.getvalue()[:200]!r} stderr={self.err.getvalue()[:200]!r}")
        return {"viol": self.viol, "sit": dict(self.sit), "inconclusive": self.inconclusive}

    async def idle(self):
        lp = self.loop
        clean = 0
        start = lp.vf_iteration
        while True:
            n0 = lp.vf_handle_no
            await asyncio.sleep(0)
            if lp.vf_handle_no == n0 + 1 and not lp.vf_timers():
                clean += 1
                if clean >= 2:
                    return
            else:
                clean = 0
            if lp.vf_iteration - start > MAX_IDLE_ITERS:
                raise Livelock("control world")

    async def open(self, pool, width, handshake_clause="C16.handshake", side="served"):
        s = Sess(self, pool, width)
        s.reader.feed_data(json.dumps({"terminal_width": width}).encode() + b"\n")
        tok = targets.side.set(side)
        try:
            hs = asyncio.ensure_future(s.session.client_handshake())
        finally:
            targets.side.reset(tok)
        await self.idle()
        if not hs.done():
            self.violate(handshake_clause, f"handshake (width {width}) did not complete")
            hs.cancel()
            s.handshake_exc = "pending"
            return s
        if hs.exception() is not None:
            e = hs.exception()
            s.handshake_exc = e
            self.violate(handshake_clause, f"handshake (width {width}) for {type(pool).__name__} raised {type(e).__name__}: {e}")
            return s
        got = s.new_writes()
        exp = str(pool).encode() + b"\n"
        if b"".join(got) != exp:
            self.violate(handshake_clause, f"handshake reply {got!r}, expected {exp!r}")
        tok = targets.side.set(side)
        try:
            s.task = asyncio.ensure_future(s.session.listen())
        finally:
            targets.side.reset(tok)
        return s

    async def send(self, s, line, split=None):
        data = line.encode() + b"\n"
        if split:
            # the line arrives in several TCP segments: nothing may be answered before the newline is there
            k = max(1, min(len(data) - 1, int(len(data) * split)))
            s.reader.feed_data(data[:k])
            await self.idle()
            early = s.new_writes()
            if early:
                self.violate("C18.one_reply", f"{len(early)} write(s) before the line was complete: {early[0][:60]!r}")
            s.reader.feed_data(data[k:])
        else:
            s.reader.feed_data(data)
        await self.idle()
        return s.new_writes()

    async def send_batch(self, s, lines):
        """Several complete lines in one segment: one reply each, in order."""
        s.reader.feed_data(b"".join(ln.encode() + b"\n" for ln in lines))
        await self.idle()
        return s.new_writes()


# ---------------------------------------------------------------------- grammar
def public_members(cls):
    out = []
    for name, member in inspect.getmembers(cls):
        if name.startswith("_"):
            continue
        if inspect.isfunction(member) or isinstance(member, property):
            out.append((name, member))
    return out


def first_doc_line(obj):
    doc = inspect.getdoc(obj)
    if not doc:
        return None
    return doc.strip().split("\n", 1)[0].strip()


FUNCS = ["vf.targets.work", "vf.targets.block", "vf.targets.fail", "vf.targets.one", "vf.targets.two", "vf.targets.eat", "vf.targets.eat"]
CBS = ["vf.targets.ecb", "vf.targets.ccb", "vf.targets.aecb"]


LAZY = ["vf.lazy.top.", "vf.lazy.l1.other.", "vf.lazy.l1.l2.jobs."]
LAZY_CHAIN = ["vf.lazy", "vf.lazy.l1", "vf.lazy.l1.l2", "vf.lazy.l1.l2.jobs"]


def set_import_state(depth):
    """Forget the lazily loaded packages under vf.lazy and re-import the first `depth` levels of the chain:
    the interpreter state in which a dotted path is resolved is an input of the translation."""
    import sys

    for name in [m for m in sys.modules if m == "vf.lazy" or m.startswith("vf.lazy.")]:
        parent, _, leaf = name.rpartition(".")
        if parent in sys.modules and hasattr(sys.modules[parent], leaf):
            delattr(sys.modules[parent], leaf)
        del sys.modules[name]
    for name in LAZY_CHAIN[:depth]:
        importlib.import_module(name)


def _path(r, p):
    if r.random() < 0.25:
        return r.choice(LAZY) + p.rsplit(".", 1)[1]
    return p


def lit(v):
    return repr(v).replace(" ", "")


def domain(pname, rng, method=None):
    """-> (python value, text) for a parameter, chosen from the method's semantics."""
    r = rng
    if pname == "func":
        p = r.choice(FUNCS + ["vf.targets.work"] * 3 + ["vf.targets.notcoro"])
        return importlib.import_module("vf.targets").__dict__[p.rsplit(".", 1)[1]], _path(r, p)
    if pname in ("end_callback", "cancel_callback"):
        p = r.choice(CBS)
        return importlib.import_module("vf.targets").__dict__[p.rsplit(".", 1)[1]], _path(r, p)
    if pname == "args":
        v = r.choice([(), (1,), (1, 2), ("x",), [3, 4], (None, True), ([1, 2],), ([1, 2],)])
        return v, lit(v)
    if pname == "kwargs":
        v = r.choice([{}, {"a": 1}, {"b": "y", "c": [1, 2]}])
        return v, lit(v)
    if pname == "arg_iter":
        v = r.choice([[], [1], [1, 2, 3], ("a", "b"), [(1, 2), 5], [None], [[1, 2, 3]], [[1, 2, 3]], [[4], [5, 6]]])
        return v, lit(v)
    if pname == "args_iter":
        v = r.choice([[], [(1,)], [(1, 2), (3, 4)], [("a",), ("b", "c")], [[1], [2]], [([7, 8],)], [([7, 8],)]])
        return v, lit(v)
    if pname == "kwargs_iter":
        v = r.choice([[], [{"a": 1}], [{"a": 1}, {"a": 2, "b": 3}], [{"x": "y"}]])
        return v, lit(v)
    if pname in ("num", "num_concurrent"):
        v = r.choice([0, 1, 1, 2, 3, 5, -1] if pname == "num_concurrent" else [0, 1, 1, 2, 3, 5, -1, 10])
        return v, str(v)
    if pname in ("group_name", "msg"):
        v = r.choice(["g1", "g2", "grp", "apply-work-group-0", "x_y", "G", "7", "3", "10", "[1]", "abc", "one", "1.5", "0x", "1,2", "None", "True", "start-group-0", "", "a\tb", "x\u00a0y", "ü\u3000z"])
        return v, v
    if pname == "value":
        v = r.choice([0, 1, 2, 3, 5, 7, 10, -1, -7, 2 ** 53 + 1, 10 ** 18 + 1, 10 ** 30])
        return v, str(v)
    raise KeyError(pname)


def domain_by_annotation(param, rng):
    ann = str(param.annotation)
    if "Callable" in ann:
        return domain("end_callback", rng)  # a dotted path to a function
    if "int" in ann:
        v = rng.choice([0, 1, 2, 3, 7])
        return v, str(v)
    v = rng.choice(["ab", "x", "hello", "7"])
    return v, v


def rep_domain(pname, rng):
    if pname == "task_ids":
        v = [rng.choice([0, 0, 1, 1, 2, 3, 5, 17, -1]) for _ in range(rng.choice([0, 1, 1, 2, 3]))]
        return v, [str(x) for x in v]
    if pname == "group_names":
        v = [rng.choice(["g1", "g2", "grp", "nope", "apply-work-group-0", "start-group-0", "map-one-group-0", "", "a\tb", "abc", "one", "5", "1.5"]) for _ in range(rng.choice([0, 1, 1, 2]))]
        return v, list(v)
    raise KeyError(pname)


def option_names(pname, help_text):
    """Long option by the documented rule; short ones only if the help text shows them."""
    long = "--" + pname.replace("_", "-")
    shorts = []
    import re

    for m in re.finditer(r"(?<![\w-])(-[A-Za-z])(?:,| [A-Z_\[{]|\]| )", help_text or ""):
        pass
    # the help lists options as "-n NUM, --num NUM" or "-r, --return-exceptions"
    for m in re.finditer(r"(-[A-Za-z])(?: \S+)?, " + re.escape(long) + r"\b", help_text or ""):
        shorts.append(m.group(1))
    return long, shorts


class Command:
    """A generated command line together with the equivalent direct call."""

    def __init__(self, name, kind, line, pos=(), kw=None, setval=None, is_set=False):
        self.name = name
        self.kind = kind  # method | prop
        self.line = line
        self.pos = list(pos)
        self.kw = kw or {}
        self.is_set = is_set
        self.setval = setval


def gen_command(cls, rng, helps=None, only=None, avoid=()):
    members = [(n, m) for n, m in public_members(cls) if n not in avoid]
    if only:
        members = [(n, m) for n, m in members if n in only]
    name, member = rng.choice(members)
    cmd = name.replace("_", "-")
    if isinstance(member, property):
        if member.fset is not None and rng.random() < 0.6:
            if name == "pool_size":
                v, t = domain("value", rng)
            else:
                v, t = domain_by_annotation(list(inspect.signature(member.fset).parameters.values())[1], rng)
            return Command(name, "prop", f"{cmd} {t}", setval=v, is_set=True)
        return Command(name, "prop", cmd)
    sig = inspect.signature(member)
    toks = [cmd]
    pos, kw = [], {}
    opts = []
    tail = []
    help_text = (helps or {}).get(name, "")
    for p in [q for q in sig.parameters.values() if q.name != "self"]:  # (a static method has no `self`)
        if p.kind == p.VAR_POSITIONAL:
            v, ts = rep_domain(p.name, rng)
            tail = (p.name, v, ts)
        elif p.default is p.empty:
            try:
                v, t = domain(p.name, rng, name)
            except KeyError:
                v, t = domain_by_annotation(p, rng)
            pos.append(v)
            toks.append(t)
        elif p.name == "return_exceptions" or str(p.annotation) in ("bool", "<class 'bool'>"):
            if rng.random() < 0.5:
                long, shorts = option_names(p.name, help_text)
                opts.append([rng.choice([long] + shorts)])
                kw[p.name] = True
        else:
            if rng.random() < 0.5:
                try:
                    v, t = domain(p.name, rng, name)
                except KeyError:
                    v, t = domain_by_annotation(p, rng)
                long, shorts = option_names(p.name, help_text)
                opts.append([rng.choice([long, long] + shorts), t])
                kw[p.name] = v
    rng.shuffle(opts)
    varpos = []
    if tail:
        varpos = tail[1]
    # options may come before or after the positionals; repeated positionals go last
    if rng.random() < 0.5:
        toks = [toks[0]] + [x for o in opts for x in o] + toks[1:]
    else:
        toks = toks + [x for o in opts for x in o]
    if tail:
        toks += tail[2]
    if toks[-1] == "" or toks[-1].strip() != toks[-1]:
        # a trailing empty / blank-edged token would be stripped with the line ending: not a well-formed line - draw again
        return gen_command(cls, rng, helps=helps, only=only, avoid=avoid)
    c = Command(name, "method", " ".join(toks), pos=pos + list(varpos), kw=kw)
    return c


def help_texts(world_cls_run):
    return world_cls_run
