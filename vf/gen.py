"""Random scenario generation for the pool world (DESIGN.md section 3.3)."""

from __future__ import annotations

import random

DEFAULT = {
    "sizes": [0, 1, 1, 2, 2, 3, 4, None],
    "npools": [1, 1, 1, 2],
    "cls": ["T", "T", "S"],
    "steps": (5, 35),
    "w": {  # operation weights
        "apply": 6, "map": 7, "start": 6, "cancel": 4, "cancel_group": 3, "cancel_all": 1,
        "stop": 3, "flush": 2, "lock": 1, "unlock": 1, "open": 5, "y": 6, "idle": 3,
        "intruder": 2, "probe": 0.5, "gac": 0.3, "reject": 0.7, "regroup": 0.8, "qput": 1.2, "burst": 0.15, "combo": 1.5, "set_same": 0.7,
    },
    "gate": 0.3,  # share of gate instructions in bodies
    "fault": 0.12,  # probability that a body / callback raises
    "callraise": 0.08,
    "inner_ops": 0.15,  # bodies / callbacks / iterators that perform pool operations
    "cb": 0.5,  # probability that a request has a given callback
    "cb_async": 0.5,
    "cb_gate": 0.25,
    "self_cancel_no_suspend": 0.5,  # share of scenarios in which that trigger is allowed
    "final_gac": 0.5,
    "marker": 0.85,
    "named": 0.3,
    "bad_elems": 0.2,
}


def profile(**over):
    p = {k: (dict(v) if isinstance(v, dict) else v) for k, v in DEFAULT.items()}
    for k, v in over.items():
        if k == "w":
            p["w"].update(v)
        else:
            p[k] = v
    return p


class Gen:
    def __init__(self, seed, prof):
        self.r = random.Random(seed)
        self.p = prof
        self.allow_scns = self.r.random() < prof["self_cancel_no_suspend"]
        self.long = self.r.random() < prof.get("long", 0.08)  # long histories: two-digit task ids / group indices, many flushes ...
        self.nreq = 0
        self.names = []

    # -------------------------------------------------------- pieces
    def wchoice(self, weights):
        items = [(k, w) for k, w in weights.items() if w > 0]
        tot = sum(w for _, w in items)
        x = self.r.random() * tot
        for k, w in items:
            x -= w
            if x <= 0:
                return k
        return items[-1][0]

    def body(self, pool, depth=0):
        r, p = self.r, self.p
        pre = []
        for _ in range(r.choice([0, 1, 1, 2, 2, 3])):
            x = r.random()
            if x < p["gate"]:
                pre.append(["g"] if r.random() >= p.get("qwait", 0.08) else r.choice([["q"], ["q"], ["u"]]))
            elif depth == 0 and r.random() < p.get("iflush", 0.04):
                pre.append(["f"])
            elif depth == 0 and x < p["gate"] + p["inner_ops"]:
                pre.append(["op", self.inner_op(pool)])
                if not (self.allow_scns and r.random() < 0.5):
                    pre.append(["y", 1])
            else:
                pre.append(["y", r.randint(1, 3)])
        b = {"pre": pre}
        x = r.random()
        if x < 0.55:
            pass
        elif x < 0.7:
            b["oncancel"] = ["clean", r.randint(0, 2)]
        elif x < 0.8:
            b["oncancel"] = "swallow_ret"
        elif x < 0.9:
            b["oncancel"] = "swallow_cont"
        else:
            b["oncancel"] = "raise" if r.random() < p["fault"] * 4 else "prop"
        if r.random() < p["fault"]:
            b["end"] = "raise"
        elif r.random() < 0.02:
            b["end"] = "selfcancel_raise"
        return b

    def bodies(self, pool):
        return [self.body(pool) for _ in range(self.r.choice([1, 1, 2, 3]))]

    def cb(self, pool):
        r, p = self.r, self.p
        if r.random() > p["cb"]:
            return None
        c = {}
        if r.random() < p["cb_async"]:
            c["async"] = True
            c["y"] = r.choice([0, 0, 1, 2])
            if r.random() < p["cb_gate"]:
                c["gate"] = True
            if r.random() < 0.3:
                c["prop"] = True
        if r.random() < p["fault"]:
            c["raise"] = True
        if r.random() < p["inner_ops"]:
            c["op"] = self.inner_op(pool)
        if r.random() < 0.15:
            c["partial"] = True
        elif r.random() < 0.12 and not c.get("async"):
            c["obj"] = True
        return c

    def ids(self):
        r = self.r
        k = r.choice([0, 1, 1, 1, 2, 2, 3, 4])
        kinds = ["run"] * 8 + ["pend", "unbegun", "ended", "incb", "flushed", "never", "neg", "self"]
        return [[r.choice(kinds), r.randint(0, 6)] for _ in range(k)]

    def group_sel(self):
        r = self.r
        return r.choice([["live", r.randint(0, 5)]] * 6 + [["own"]] * 3 + [["unknown", r.randint(0, 99)], ["dead", r.randint(0, 3)]])

    def inner_op(self, pool):
        r = self.r
        others = [q for q in getattr(self, "pools", []) if q is not pool]
        if others and r.random() < 0.3:
            pool = r.choice(others)  # user code of one pool operating on another pool in the same loop
        if self.p["w"].get("set_size", 0) > 0 and r.random() < 0.2:
            # user code (a callback, a worker) that resizes the pool and cancels something in one go
            a = {"op": "set_size", "pool": pool["idx"], "v": r.choice([0, 1, 1, 2, 3, None])}
            b = self.simple_op(r.choice(["cancel_group", "cancel_group", "cancel_all", "cancel"]), pool, depth=1)
            return {"op": "seq", "steps": [a, b] if r.random() < 0.6 else [b, a]}
        k = self.wchoice({"cancel": 4, "cancel_group": 4, "cancel_all": 1.5, "stop": 2 if pool["cls"] == "S" else 0,
                          "apply": 2 if pool["cls"] == "T" else 0, "start": 0,
                          "flush": 1, "open": 2, "lock": 0.3, "unlock": 0.3, "set_same": 2 if self.p["w"].get("set_same", 0) > 0 else 0})
        return self.simple_op(k, pool, depth=1)

    def simple_op(self, k, pool, depth=0):
        r = self.r
        pi = pool["idx"]
        msg = {"msg": r.choice(["bye", "", "stop it"])} if r.random() < 0.3 else {}
        if k == "cancel":
            return {"op": "cancel", "pool": pi, "ids": self.ids(), **msg}
        if k == "cancel_group":
            return {"op": "cancel_group", "pool": pi, "sel": self.group_sel(), **msg}
        if k == "cancel_all":
            return {"op": "cancel_all", "pool": pi, **msg}
        if k == "set_same":
            return {"op": "set_size", "pool": pi, "v": "same"}
        if k == "stop":
            if r.random() < 0.2:
                return {"op": "stop_all", "pool": pi}
            return {"op": "stop", "pool": pi, "n": r.choice([-1, 0, 1, 1, 2, 2, 3, 5])}
        if k == "flush":
            st = {"op": "flush", "pool": pi, "rex": r.random() < 0.6}
            if r.random() < self.p.get("abandon", 0.12):
                st["abandon"] = r.randint(1, 6)
            return st
        if k == "open":
            return {"op": "open", "sel": r.choice([["w", r.randint(0, 5)], ["cb", r.randint(0, 5)], ["any", r.randint(0, 5)], ["all"]])}
        if k in ("lock", "unlock"):
            return {"op": k, "pool": pi, "twice": r.random() < 0.3}
        if k == "apply":
            return self.apply(pool, depth=depth)
        if k == "start":
            return {"op": "start", "pool": pi, "num": r.choice([0, 1, 1, 2, 3])}
        raise ValueError(k)

    def gname(self):
        r, p = self.r, self.p
        if r.random() > p["named"]:
            return None
        x = r.random()
        if x < 0.15:
            return ["dup", r.randint(0, 5)]
        if x < 0.35:
            return ["reuse", r.randint(0, 5)]
        if x < 0.5:
            # imitate the generated pattern
            return r.choice(["apply-w-group-0", "map-w-group-1", "starmap-w-group-0", "apply-w-group-1", "start-group-0"])
        self.nreq += 1
        # legal names with characters that matter to %-formatting, str.format, option parsing and the name pattern
        if r.random() < 0.08:
            return ""  # the empty string is a name like any other
        return r.choice(["g{n}", "g{n}", "g{n}", "g{n}%", "%s-{n}", "{{}}{n}", "g {n}", "%(x)s{n}", "a%%b{n}", "-g{n}", "gr\u00fcppe{n}", "g{n}-" + "y" * 70]).format(n=self.nreq)

    def fname(self):
        return self.r.choice(["w", "w", "w", "v", "work_er"])

    def apply(self, pool, depth=0):
        r, p = self.r, self.p
        num = r.choice([0, 1, 1, 2, 2, 3, 3, 5, 8] + ([12, 15] if self.long else [])) if depth == 0 else r.choice([1, 1, 2])
        s = {"op": "apply", "pool": pool["idx"], "num": num, "args": r.choice([0, 0, 1, 2, "list"]),
             "kwargs": r.choice([None, None, 0, 1, 2]), "gname": self.gname() if depth == 0 else None,
             "fname": self.fname(), "marker": r.random() < p["marker"]}
        if not s["marker"] and r.random() < 0.4:
            s["flavour"] = "method"
        elif s["gname"] is not None and r.random() < 0.3:
            s["flavour"] = r.choice(["partial", "partial", "object", "partial_object"])
        if depth == 0:
            s["ecb"], s["ccb"] = self.cb(pool), self.cb(pool)
            s["bodies"] = self.bodies(pool)
        else:
            s["bodies"] = [{"pre": [["y", r.randint(0, 2)]]}]
        if s["marker"] and r.random() < p["callraise"] * 2 and num:
            s["callraise"] = sorted({r.randrange(num) for _ in range(r.choice([1, 1, 2]))})
        if r.random() < 0.1:
            s.pop("num")
            s["num_default"] = True
        if s.get("num", 1) <= 1 and r.random() < 0.15:
            s["args"] = "iter"
        return s

    def map(self, pool):
        r, p = self.r, self.p
        kind = r.choice(["map", "starmap", "doublestarmap"])
        n = r.choice([0, 1, 2, 3, 4, 5, 6, 8, 12] + ([20, 30] if self.long else []))
        s = {"op": "map", "pool": pool["idx"], "kind": kind, "n": n, "nc": r.choice([1, 1, 2, 2, 3, 4] + ([9, 12] if self.long else [])),
             "gname": self.gname(), "fname": self.fname(), "marker": r.random() < p["marker"],
             "iter": r.choice(["gen"] * 5 + ["list", "tuple", "dictvalues"]),
             "ecb": self.cb(pool), "ccb": self.cb(pool), "bodies": self.bodies(pool)}
        if s["gname"] is not None and r.random() < 0.3:
            s["flavour"] = r.choice(["partial", "partial", "object", "partial_object"])
        if n and r.random() < p["bad_elems"] and (kind != "map" or s["marker"]):
            s["bad"] = sorted({r.randrange(n) for _ in range(r.choice([1, 1, 2, 3]))})
        if n and kind != "map" and r.random() < 0.2:
            s["empties"] = sorted({r.randrange(n) for _ in range(r.choice([1, 2]))})
        if r.random() < 0.1:
            s.pop("nc")
        if s["iter"] == "gen" and n and r.random() < p["inner_ops"]:
            op = self.inner_op(pool)
            if op["op"] not in ("lock",):
                s["iter_ops"] = {str(r.randrange(n + 1)): op}
        return s

    def reject(self, pool):
        """A spawn request with at least one static rejection cause."""
        r = self.r
        if pool["cls"] == "S":
            return None
        causes = r.sample(["func", "nc", "dup"], r.choice([1, 1, 2, 3]))
        s = self.map(pool) if (r.random() < 0.7 or "nc" in causes) else self.apply(pool)
        s.pop("callraise", None)
        if s["op"] == "apply" and r.random() < 0.5:
            s["args"] = "iter"
        if "func" in causes:
            s["func_kind"] = r.choice(["plain", "plain", "lambda", "lambda", "builtin", "gen", "asyncgen", "method"])
            s.pop("bad", None)
        if "nc" in causes and s["op"] == "map":
            s["nc"] = r.choice([0, -1, -3])
        if "dup" in causes:
            s["gname"] = ["dup", r.randint(0, 5)]
        return s

    # -------------------------------------------------------- whole scenario
    def scenario(self):
        r, p = self.r, self.p
        pools = []
        for i in range(r.choice(p["npools"])):
            cls = r.choice(p["cls"])
            ps = {"idx": i, "cls": cls, "size": r.choice(p["sizes"]), "name": r.choice([None, None, None, None, None, f"p{i}", "same", "", f"load 100% {i}", "%s", "{}", f"p {i}", "pöol" + "x" * 40])}
            if p.get("size_track"):
                ps["size_track"] = True
            pools.append(ps)
        self.pools = pools
        for ps in pools:
            if ps["cls"] == "S":
                ps["args"] = r.choice([0, 1, 2])
                ps["kwargs"] = r.choice([None, 1])
                ps["ecb"], ps["ccb"] = self.cb(ps), self.cb(ps)
                ps["bodies"] = self.bodies(ps)
                ps["marker"] = r.random() < p["marker"]
                ps["fname"] = self.fname()
                if ps["marker"] and r.random() < p["callraise"]:
                    ps["callraise"] = sorted({r.randrange(6) for _ in range(2)})
        steps = []
        for ps in pools:
            # some pools get their size by assignment right after construction (in particular pools created without one)
            if r.random() < p.get("init_size", 0.2):
                steps.append({"op": "init_size", "pool": ps["idx"], "v": r.choice([0, 1, 2, 2, 3, 5, None]), "was_none": ps["size"] is None})
        n = r.randint(*p["steps"]) if not self.long else r.randint(60, 160)
        for _ in range(n):
            pool = r.choice(pools)
            k = self.wchoice(p["w"])
            st = None
            if k == "apply" and pool["cls"] == "T":
                st = self.apply(pool)
            elif k == "map" and pool["cls"] == "T":
                st = self.map(pool)
            elif k == "start" and pool["cls"] == "S":
                st = {"op": "start", "pool": pool["idx"], "num": r.choice([0, 1, 1, 2, 2, 3, 4, 6] + ([11] if self.long else []))}
            elif k in ("cancel", "cancel_group", "cancel_all", "flush", "lock", "unlock", "open", "set_same"):
                st = self.simple_op(k, pool)
            elif k == "stop" and pool["cls"] == "S":
                st = self.simple_op(k, pool)
            elif k == "y":
                st = {"op": "y", "k": r.randint(1, 4)}
            elif k == "idle":
                st = {"op": "idle"}
            elif k == "probe":
                st = {"op": "probe"}
            elif k == "intruder":
                inner = self.inner_op(pool)
                st = {"op": "intruder", "delay": r.randint(0, 8), "step": inner}
            elif k == "gac":
                st = {"op": "gac", "pool": pool["idx"], "rex": r.random() < 0.5, "waiters": r.choice([0, 1, 2])}
            elif k == "reject":
                st = self.reject(pool)
            elif k == "ctor_neg":
                st = {"op": "ctor_neg", "v": r.choice([-1, -2, -10]), "cls": pool["cls"]}
            elif k == "regroup":
                # cancel a group and request a new one under the same name within the same handle
                if pool["cls"] == "T":
                    new = self.apply(pool) if r.random() < 0.6 else self.map(pool)
                    new["gname"] = ["reuse_last"]
                    st = {"op": "seq", "steps": [{"op": "cancel_group", "pool": pool["idx"], "sel": ["live", r.randint(0, 5)]}, new]}
            elif k == "combo":
                # two operations inside one handle (no yield in between): a cancellation / flush / lock followed by a
                # size assignment, a new request or another cancellation
                first = self.simple_op(self.wchoice({"cancel": 3, "cancel_group": 4, "cancel_all": 1, "flush": 1, "lock": 0.4, "unlock": 0.4,
                                                     "stop": 2 if pool["cls"] == "S" else 0}), pool)
                kinds = {"cancel": 2, "cancel_group": 2, "flush": 1}
                if p["w"].get("set_size", 0) > 0:
                    kinds["set_size"] = 4
                kinds["apply" if pool["cls"] == "T" else "start"] = 3
                k2 = self.wchoice(kinds)
                if k2 == "set_size":
                    second = {"op": "set_size", "pool": pool["idx"], "v": r.choice([0, 1, 1, 2, 3, 5, None])}
                else:
                    second = self.simple_op(k2, pool, depth=1)
                st = {"op": "seq", "steps": [first, second] if r.random() < 0.7 else [second, first]}
            elif k == "burst":
                # a dozen unnamed requests for the same function back to back: two-digit generated group indices
                if pool["cls"] == "T":
                    fn, kind, pi = self.fname(), r.choice(["apply", "map", "starmap"]), pool["idx"]
                    subs = []
                    for _ in range(r.randint(11, 14)):
                        if kind == "apply":
                            subs.append({"op": "apply", "pool": pi, "num": r.choice([0, 1]), "args": 0, "kwargs": None, "gname": None, "fname": fn,
                                         "marker": True, "bodies": [{"pre": [["y", 1]]}]})
                        else:
                            subs.append({"op": "map", "pool": pi, "kind": kind, "n": r.choice([0, 1, 2]), "nc": 1, "gname": None, "fname": fn,
                                         "marker": True, "iter": "list", "ecb": None, "ccb": None, "bodies": [{"pre": [["y", 1]]}]})
                    st = {"op": "seq", "steps": subs}
            elif k == "qput":
                # feed the library queue some workers wait on; half of the time together with a cancellation of one of
                # the waiting workers inside the same handle, in either order
                put = {"op": "qput", "n": r.choice([1, 1, 2, 3])}
                x = r.random()
                canc = {"op": "cancel", "pool": pool["idx"], "ids": [["qwait", r.randint(0, 5)]]}
                if x < 0.25:
                    st = {"op": "seq", "steps": [put, canc]}
                elif x < 0.5:
                    st = {"op": "seq", "steps": [canc, put]}
                else:
                    st = put
            elif k == "grow_size":
                st = {"op": "grow_size", "pool": pool["idx"], "by": r.choice([1, 1, 2, 3, None]), "twice": r.random() < 0.4}
            elif k == "set_size":
                st = {"op": "set_size", "pool": pool["idx"], "v": r.choice([-2, -1, 0, 1, 2, 3, 5, None])}
            if st is not None:
                steps.append(st)
        sc = {"pools": pools, "steps": steps,
              "final": {"probe": True, "gac": r.random() < p["final_gac"], "gac_rex": r.random() < 0.7},
              "allow_scns": self.allow_scns}
        return sc
