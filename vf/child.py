"""Child process: run a contiguous range of cases of one family of one check; print merged JSON."""

from __future__ import annotations

import json
import logging
import sys
import warnings
from collections import Counter


# Clauses that are filed under another property's name but are also part of this property's statement.
ALSO = {
    "C02": ("C03.cb_completes", "C03.cancel_cb_iff"),  # "its callbacks fire"
    "C03": ("C02.end_cb_once", "C11.cb_id"),
    "C04": ("C10.group_ids", "C11.unique"),
    "C05": ("C11.unique",),
    "C10": ("C07.unknown", "C07.forgotten"),  # "an unknown name raises InvalidGroupName"
    "C13": ("C03.counter_sum", "C03.state_probe"),
}


class CaseTimeout(BaseException):
    """Wall-clock watchdog of one execution (generous; its firing is 'inconclusive', never a verdict)."""


def _on_case_alarm(signum, frame):
    raise CaseTimeout()


class _Sink(logging.Handler):
    """Formats every record (so the library's log calls are really evaluated) and throws the text away."""

    records = 0

    def emit(self, record):
        try:
            self.format(record)
            _Sink.records += 1
        except Exception:  # noqa: BLE001
            self.handleError(record)  # logging's own policy: a traceback on stderr


_SINK = _Sink()


def set_logging(on):
    """Part of the environment of a case: the library's logger at DEBUG with a handler, or logging disabled."""
    root = logging.getLogger()
    if on:
        logging.disable(logging.NOTSET)
        if _SINK not in root.handlers:
            root.handlers[:] = [_SINK]
        root.setLevel(logging.DEBUG)
        logging.getLogger("asyncio").setLevel(logging.CRITICAL)  # the loop's own chatter is not under test
    else:
        logging.disable(logging.CRITICAL)


def mine(cid, clause):
    return clause.split(".")[0] == cid or any(clause.startswith(a) for a in ALSO.get(cid, ()))


def run_unit(cid, tier, seed, fam, start, count):
    from . import checks

    spec = checks.get(cid)
    spec.prepare()
    sit = Counter()
    sigs = set()
    viol = []
    samples = []
    extra = {}
    evals = 0
    from . import tap

    tap_n = 25 if fam in ("random", "sweep") and getattr(spec, "mods", None) is not None else 0
    tapped = tap_n and tap.start(spec.mods)
    for i in range(start, start + count):
        if tapped and i - start >= tap_n:
            tap.stop()
            tapped = False
            extra["tapped_executions"] = extra.get("tapped_executions", 0) + tap_n
        case = spec.make_case(fam, seed, i, tier)
        if case is None:
            continue
        debug_log = i % 4 == 1
        set_logging(debug_log)
        if debug_log:
            sit["env.debug_logging_cases"] += 1
        from . import loop as vfloop

        vfloop.ENV["custom_task_factory"] = i % 5 == 2  # an ordinary (lazy) task factory installed on the loop
        if vfloop.ENV["custom_task_factory"]:
            sit["env.custom_task_factory_cases"] += 1
        import signal

        signal.signal(signal.SIGALRM, _on_case_alarm)
        signal.alarm(180)
        try:
            res = spec.run_case(case)
        except CaseTimeout:
            res = {"inconclusive": True, "sit": {"_case_watchdog": 1}}
        finally:
            signal.alarm(0)
        evals += res.get("evals", 1)
        sit.update(res.get("sit", {}))
        if res.get("inconclusive"):
            sit["_inconclusive"] += 1
        if res.get("nontrivial"):
            sigs.add(res["sig"])
        for v in res.get("viol", []):
            if not mine(cid, v["clause"]):
                sit["_foreign_clause." + v["clause"]] += 1  # alarms that are another property's business (its own check decides)
                continue
            if len(viol) < 6:
                v = dict(v)
                v["case"] = case
                v["family"] = fam
                v["env"] = {"debug_logging": debug_log, "custom_task_factory": vfloop.ENV["custom_task_factory"]}
                v["index"] = i
                v["seed"] = seed
                v["log_tail"] = res.get("log_tail")
                viol.append(v)
            else:
                break
        if i == start and start % 7 == 0 and len(samples) < 1 and res.get("sample") is not None:
            samples.append(res["sample"])
        for k, v in res.get("extra", {}).items():
            if isinstance(v, dict):
                extra.setdefault(k, Counter()).update(v)
            else:
                extra[k] = extra.get(k, 0) + v
    if tapped:
        tap.stop()
        extra["tapped_executions"] = extra.get("tapped_executions", 0) + min(tap_n, count)
    set_logging(False)
    sit["env.log_records_formatted"] += _Sink.records
    th, ra = tap.drain()
    if th or ra:
        extra.setdefault("cancel_sites", Counter()).update(th)
        extra.setdefault("raise_sites", Counter()).update(ra)
    return {"family": fam, "evals": evals, "sit": dict(sit), "sigs": sorted(sigs), "viol": viol,
            "samples": samples, "extra": {k: (dict(v) if isinstance(v, Counter) else v) for k, v in extra.items()}}


def replay(cid, path):
    from . import checks

    with open(path) as f:
        v = json.load(f)
    spec = checks.get(cid)
    spec.prepare()
    warnings.simplefilter("ignore")
    from . import loop as vfloop

    env = v.get("env") or {}
    set_logging(bool(env.get("debug_logging")))  # the environment of the recorded execution
    vfloop.ENV["custom_task_factory"] = bool(env.get("custom_task_factory"))
    res = spec.run_case(v["case"], verbose=True)
    print(json.dumps(v["case"]))
    for line in res.get("log", []):
        print(line)
    bad = [x for x in res.get("viol", []) if mine(cid, x["clause"])]
    for x in bad:
        print(f"# {x['clause']}: {x['msg']} (triggers {x.get('triggers')})")
    print("replayed:", "VIOLATION reproduced" if bad else "no violation on this tree")
    return 1 if bad else 0


def main():
    logging.disable(logging.CRITICAL)
    warnings.simplefilter("ignore")
    cid, tier, seed, fam, start, count = sys.argv[1:7]
    out = run_unit(cid, tier, int(seed), fam, int(start), int(count))
    sys.stdout.write(json.dumps(out, default=str))


if __name__ == "__main__":
    main()
