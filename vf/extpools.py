"""Pool subclasses adding public members (C16: 'and subclasses adding public members')."""

from __future__ import annotations

from asyncio_taskpool.pool import SimpleTaskPool, TaskPool


class ExtTaskPool(TaskPool):
    def shout(self, text: str, times: int = 1) -> str:
        """Returns the text repeated a number of times."""
        return text * times

    @property
    def label(self) -> str:
        """The label attached to this pool."""
        return getattr(self, "_label", "none")

    @label.setter
    def label(self, value: str) -> None:
        """Attaches a label to this pool."""
        self._label = value

    def _hidden(self) -> None:
        """Not public."""

    def blank_doc(self) -> int:
        """ """
        return 1

    def no_doc(self, flag: bool = False) -> int:
        return 2


class ExtSimpleTaskPool(SimpleTaskPool):
    def double_up(self) -> int:
        """Reports twice the number of running tasks."""
        return 2 * self.num_running

    @property
    def mood(self) -> str:
        """How the pool feels."""
        return "fine"

    @property
    def blank_prop(self) -> int:
        """
        """
        return 3

    @blank_prop.setter
    def blank_prop(self, value: int) -> None:
        self._blank = value
