"""Pool subclasses adding public members (C16: 'and subclasses adding public members'), overriding inherited ones
and adding static methods: a command must reach what the served pool's own class defines (C17)."""

from __future__ import annotations

from typing import Callable

from asyncio_taskpool.pool import SimpleTaskPool, TaskPool


class ExtTaskPool(TaskPool):
    def shout(self, text: str, times: int = 1) -> str:
        """Returns the text repeated a number of times."""
        return text * times

    @property
    def label(self) -> str:
        """The label attached to this pool."""
        return getattr(self, "_label", "none")

    @label.setter
    def label(self, value: str) -> None:
        """Attaches a label to this pool."""
        self._label = value

    def _hidden(self) -> None:
        """Not public."""

    def blank_doc(self) -> int:
        """ """
        return 1

    def no_doc(self, flag: bool = False) -> int:
        return 2

    # --- inherited public members, overridden
    def lock(self) -> None:
        """Disallows any more tasks to be started in the pool (and counts how often that was asked for)."""
        self._lock_calls = getattr(self, "_lock_calls", 0) + 1
        super().lock()

    @property
    def lock_calls(self) -> int:
        """How many times `lock` was called on this pool."""
        return getattr(self, "_lock_calls", 0)

    @property
    def pool_size(self) -> int:
        """Maximum number of concurrently running tasks allowed in the pool (never more than 8 here)."""
        return TaskPool.pool_size.fget(self)  # type: ignore[attr-defined]

    @pool_size.setter
    def pool_size(self, value: int) -> None:
        TaskPool.pool_size.fset(self, min(value, 8))  # type: ignore[attr-defined]

    def cancel_all(self, msg: str | None = None) -> None:
        """Cancels all tasks in the pool - unless the pool is locked."""
        if self.is_locked:
            raise RuntimeError("refusing to cancel everything in a locked pool")
        super().cancel_all(msg=msg)

    def notify(self, hook: Callable[[int], None], times: int = 1) -> int:
        """Calls the hook (a function that returns nothing) a few times with the number of running tasks."""
        for _ in range(max(0, min(times, 3))):
            hook(self.num_running)
        return times

    # --- static methods are public members, too
    @staticmethod
    def version() -> str:
        """The version of this pool class."""
        return "ext-1"

    @staticmethod
    def ratio(numerator: int, denominator: int = 2) -> int:
        """Integer division, for no particular reason."""
        return numerator // denominator


class ExtSimpleTaskPool(SimpleTaskPool):
    def double_up(self) -> int:
        """Reports twice the number of running tasks."""
        return 2 * self.num_running

    @property
    def mood(self) -> str:
        """How the pool feels."""
        return "fine"

    @property
    def blank_prop(self) -> int:
        """
        """
        return 3

    @blank_prop.setter
    def blank_prop(self, value: int) -> None:
        self._blank = value

    def stop_all(self) -> list[int]:
        """Cancels all running tasks and remembers how many that were."""
        ids = super().stop_all()
        self._stopped_total = getattr(self, "_stopped_total", 0) + len(ids)
        return ids

    @property
    def stopped_total(self) -> int:
        """How many tasks `stop_all` has cancelled so far."""
        return getattr(self, "_stopped_total", 0)

    @staticmethod
    async def settle(rounds: int = 1) -> int:
        """Yields to the event loop a few times."""
        import asyncio

        for _ in range(min(rounds, 3)):
            await asyncio.sleep(0)
        return rounds
