"""Checks outside the pool world: C20 (queue), C16-C19 (control)."""

from __future__ import annotations

import hashlib
import random

from .checks import reg, scaled_floors


class QueueCheck:
    cid = "C20"
    level = "fault_enumeration"
    chunk = 500
    rule = ("family 'sweep': every single cancellation placement (consumer x loop iteration 0..25) over 6 hand-written producer/consumer bases and every "
            "pair of placements on 3 small bases (exhaustive over placements at iteration granularity for those bases); family 'random': random producers/"
            "consumers/body outcomes (normal, raise, cancelled inside, cancelled while waiting, at hand-over), joins and late puts; "
            "non-trivial = a cancellation was delivered or a body failed; distinct = distinct event-kind sequence")
    assumptions = ["CPython 3.12.1 asyncio.Queue semantics", "task_done() calls are counted by a harness subclass of the repository's Queue",
                   "quiescence decided logically; no wall-clock verdicts"]

    def prepare(self):
        from . import mods

        self.mods = mods.load()

    def families(self, tier):
        from . import queue_world as qw

        n = len(qw.sweep_cases())
        return [("sweep", n), ("random", 4000 if tier == "quick" else 200000)]

    def floors(self, tier):
        return scaled_floors("C20", ["cancel.waiting", "cancel.inside", "cancelled_waiting", "exit.cancelled", "exit.raise", "exit.normal",
                                     "join_returned.waited", "join_returned.immediate", "exit.nested_outer", "exit.nested_inner", "put.same_object_as_previous"], tier, 20)

    def timeout(self, tier):
        return 900 if tier == "quick" else 7200

    def make_case(self, fam, seed, i, tier):
        from . import queue_world as qw

        if fam == "sweep":
            return qw.sweep_scenario(i)
        return qw.gen_scenario(random.Random(f"{seed}:C20:{i}"))

    def run_case(self, case, verbose=False):
        from . import queue_world as qw

        w = qw.QueueWorld(case, self.mods)
        r = w.run()
        sit = r["sit"]
        out = {"viol": r["viol"], "sit": sit, "inconclusive": r["inconclusive"],
               "nontrivial": any(k.startswith("cancel.") for k in sit) or sit.get("exit.raise", 0) > 0,
               "sig": hashlib.md5(repr(r["sig"]).encode()).hexdigest()[:16],
               "extra": {"events": r["events"], "loop_iterations": r["iterations"], "boundary_checks": sit.get("boundary_checks", 0)}}
        log = [" ".join(str(x) for x in e) for e in w.log]
        if r["viol"]:
            out["log_tail"] = log[-60:]
        if verbose:
            out["log"] = log
        out["sample"] = {"scenario": case, "log_head": log[:40]}
        return out


reg(QueueCheck())


# ---------------------------------------------------------------------- C16
class C16World:
    pass


class C16Check:
    cid = "C16"
    level = "exploration"
    chunk = 20
    rule = ("family 'server': a real TCP/Unix control server with 1-3 raw clients whose connects and handshakes interleave, each of which must then get help for sampled members, over one to three serving periods of the same server object (stop, everybody leaves, serve_forever() again); "
            "family 'widths': cases = (pool class in {TaskPool, SimpleTaskPool, two subclasses adding a public method and properties}) x terminal width (80 plus widths sampled from 10..400 at which a "
            "plain argparse parser can format help); each case performs the JSON handshake on a real ControlSession, then asks '<command> -h' for EVERY public member enumerated by inspect, "
            "the top-level '-h', and several non-public names, and executes every read-only property and every static method as a command (reply compared with the direct access); subclasses also override inherited members and define static methods; non-trivial = every member help was checked; distinct = distinct (class, width)")
    assumptions = ["in-memory transport: real asyncio.StreamReader + recording writer at the ControlSession constructor boundary (socket transports are exercised by C19)",
                   "a terminal width is in the domain iff a plain argparse.ArgumentParser of that width can format help (calibrated per case)"]

    def prepare(self):
        from . import control, mods

        self.mods = control.load_control(mods.load())

    def families(self, tier):
        return [("widths", 160 if tier == "quick" else 4000), ("server", 60 if tier == "quick" else 1500)]

    def floors(self, tier):
        return scaled_floors("C16", ["C16.member_help_ok", "C16.handshake_ok", "C16.private_rejected", "C16.command_set_exact", "C16.socket_clients_ok",
                                     "C19.handshake_while_other_pending", "C16.member_runs_ok", "C16.member_runs_ok.static", "C16.served_again", "C16.client_parked_meanwhile", "C16.socket_probe_ok",
                                     "C16.tiny_widths_identical", "C16.help_stable_with_other_width"], tier, 25)

    def timeout(self, tier):
        return 900 if tier == "quick" else 7200

    def make_case(self, fam, seed, i, tier):
        rng = random.Random(f"{seed}:C16:{fam}:{i}")
        if fam == "server":
            from . import c16

            return c16.gen_server_case(rng)
        classes = ["TaskPool", "SimpleTaskPool", "ExtTaskPool", "ExtSimpleTaskPool"]
        width = 80 if i % 8 < 2 else rng.choice([rng.randint(0, 9), rng.randint(10, 40), rng.randint(20, 120), rng.randint(60, 400)])
        return {"cls": classes[i % 4], "width": width, "name": rng.choice([None, "p", "my-pool", "ünï"]), "long_first": rng.choice([0, 0, 5000, 9000])}

    def run_case(self, case, verbose=False):
        from . import c16

        w = c16.ServerWorld(self.mods, case) if case.get("server") else c16.World(self.mods, case)
        r = w.run()
        sit = r["sit"]
        out = {"viol": r["viol"], "sit": sit, "inconclusive": r["inconclusive"],
               "nontrivial": sit.get("C16.member_help_ok", 0) > (0 if case.get("server") else 5),
               "sig": f"{case['cls']}:{case.get('width')}:{case.get('order')}",
               "extra": {"members_checked": sit.get("C16.member_help_ok", 0)}}
        if r["viol"]:
            out["log_tail"] = w.log[-60:]
        if verbose:
            out["log"] = w.log
        out["sample"] = {"case": case, "log_head": w.log[:12]}
        return out


reg(C16Check())


# ---------------------------------------------------------------------- C18
class C18Check:
    cid = "C18"
    level = "exploration"
    chunk = 20
    rule = ("family 'sockets': 2-3 raw clients of one real Unix/TCP control server send probes, invalid lines and commands while clients (preferably the one that connected first) leave; "
            "family 'random': 1-3 simultaneous ControlSessions (various widths) on one busy TaskPool/SimpleTaskPool, 6-30 lines each drawn from: grammar-generated valid commands, "
            "by-construction invalid lines (unknown command, missing positional, non-numeric int, unknown option, surplus positional, unresolvable dotted path), help requests, "
            "token-level mutants of valid lines (drop/duplicate/swap/=-form/abbreviation), printable junk up to 4 kB incl. non-ASCII, and probe commands; "
            "waiting commands are parked and released from another session; non-trivial = at least one invalid/junk line and one probe were answered; distinct = distinct scenario seed")
    assumptions = ["in-memory transport at the ControlSession constructor boundary (real StreamReader, recording writer)",
                   "log records are not 'printing': the logging module is disabled in the checking process, sys.stdout/sys.stderr are captured",
                   "lines are valid UTF-8 text without embedded newlines; whitespace-only lines are never sent (they end a session like EOF)"]

    def prepare(self):
        from . import control, mods

        self.mods = control.load_control(mods.load())

    def families(self, tier):
        return [("random", 600 if tier == "quick" else 30000), ("sockets", 60 if tier == "quick" else 2000)]

    def floors(self, tier):
        return scaled_floors("C18", ["C18.lines.invalid", "C18.lines.junk", "C18.lines.mutant", "C18.lines.help", "C18.lines.valid",
                                     "C18.probe_ok", "C18.isolation_ok", "C18.short_after_long", "C18.waiting_released", "C18.socket_probe_ok", "C18.socket_client_left", "C18.socket_reply_after_stop", "C18.pipelined_spawn_cancel", "C18.pool_shrunk_below_running", "C18.direct_waiter_gave_up"], tier, 50)

    def timeout(self, tier):
        return 900 if tier == "quick" else 7200

    def make_case(self, fam, seed, i, tier):
        from . import c18

        if fam == "sockets":
            return c18.gen_socket_case(random.Random(f"{seed}:C18s:{i}"))
        return c18.gen_scenario(random.Random(f"{seed}:C18:{i}"))

    def run_case(self, case, verbose=False):
        from . import c18

        w = c18.SocketWorld(self.mods, case) if case.get("sockets") else c18.World(self.mods, case)
        r = w.run()
        sit = r["sit"]
        out = {"viol": r["viol"], "sit": sit, "inconclusive": r["inconclusive"],
               "nontrivial": ((sit.get("C18.lines.invalid", 0) + sit.get("C18.lines.junk", 0)) > 0 and sit.get("C18.probe_ok", 0) > 0) or sit.get("C18.socket_probe_ok", 0) > 1,
               "sig": str(case["seed"]), "extra": {"lines": sum(v for k, v in sit.items() if k.startswith("C18.lines."))}}
        if r["viol"]:
            out["log_tail"] = w.log[-60:]
        if verbose:
            out["log"] = w.log
        out["sample"] = {"case": case, "log_head": w.log[:25]}
        return out


reg(C18Check())


# ---------------------------------------------------------------------- C17
class C17Check:
    cid = "C17"
    level = "translation_validation"
    chunk = 60
    rule = ("programs = well-formed command lines generated from the pool classes' signatures (every public method and property of TaskPool / SimpleTaskPool, random subsets of "
            "options in long or short spelling, values from each parameter's domain: ints, strings, flags, repeated positionals, Python-literal containers, dotted-path functions - also into lazily imported packages, with the number of already imported package levels as an input; pool subclasses that override inherited members and add static methods); "
            "each line is sent to a real ControlSession serving one pool while the equivalent direct call is made on an identically configured twin pool; reply text, public state "
            "and the multiset of worker/callback invocations are compared after every command; in part of the sessions a second client sends help requests / ill-formed lines, and a second served pool of the same class (decoy) is sent the same lines first; non-trivial = >= 3 commands compared; distinct = distinct session seed")
    assumptions = ["the twin pool driven by direct Python calls is the reference semantics",
                   "command lines are well formed: single spaces between tokens, no spaces inside values",
                   "in-memory transport at the ControlSession constructor boundary"]

    def prepare(self):
        from . import control, mods

        self.mods = control.load_control(mods.load())

    def families(self, tier):
        return [("random", 600 if tier == "quick" else 20000)]

    def floors(self, tier):
        return scaled_floors("C17", ["C17.state_ok", "C17.reply_ok.ret", "C17.reply_ok.exc", "C17.options.2", "C17.noise_lines", "C17.decoy_lines",
                                     "C17.lazy_path.preimported_0", "C17.lazy_path.preimported_2", "C17.lazy_path.preimported_4", "C17.cmd.ratio", "C17.cmd.lock_calls"], tier, 33)

    def timeout(self, tier):
        return 900 if tier == "quick" else 7200

    def make_case(self, fam, seed, i, tier):
        from . import c17

        return c17.gen_scenario(random.Random(f"{seed}:C17:{i}"))

    def run_case(self, case, verbose=False):
        from . import c17

        w = c17.World(self.mods, case)
        r = w.run()
        sit = r["sit"]
        out = {"viol": r["viol"], "sit": sit, "inconclusive": r["inconclusive"],
               "nontrivial": sit.get("C17.state_ok", 0) >= 3, "sig": str(case["seed"]),
               "extra": {"programs": w.programs, "disagreements_checked": w.disagreements_checked}}
        if r["viol"]:
            out["log_tail"] = w.log[-60:]
        if verbose:
            out["log"] = w.log
        out["sample"] = {"case": case, "log_head": w.log[:25]}
        return out


reg(C17Check())


# ---------------------------------------------------------------------- C19
class C19Check:
    cid = "C19"
    level = "exploration"
    chunk = 4
    rule = ("random lifecycles of a real TCPControlServer / UnixControlServer: 0-4 raw stream clients (connect, probe and mutating commands, parking in until-closed, disconnect by "
            "close / half-close / abort) and in ~20% of the cases the bundled CLI client as a subprocess (commands on stdin, 'exit' or stdin EOF), with the cancellation of the serving "
            "task placed anywhere in the merged action order; in ~35% of the cases the same server object serves two or three periods (serve_forever() again after the stop), clients of an "
            "earlier period may still be connected and leave while the server serves again, is_serving() is checked before every action; verdicts at socket quiescence (consecutive idle 1 ms ticks, empty selector); non-trivial = at least one client connected "
            "and the server was stopped; distinct = distinct merged action order")
    assumptions = ["loopback TCP and Unix sockets of this kernel; CPython 3.12.1 Server.wait_closed semantics",
                   "a 60 s wall-clock watchdog only ever yields INCONCLUSIVE, never a violation",
                   "the TCP port is chosen by binding port 0 on a probe socket first (small reuse race accepted in a sealed sandbox)"]

    def prepare(self):
        from . import control, mods

        self.mods = control.load_control(mods.load())

    KNOWN = [{"transport": "unix", "cls": "T", "nclients": 2, "known": "KF-C19-parked",
              "order": [["connect", 0], ["connect", 1], ["park", 0], ["probe", 1, "num-running"], ["disc", 0, "close"], ["disc", 1, "close"], ["stop"]]},
             {"transport": "tcp", "cls": "S", "nclients": 1, "known": "KF-C19-parked",
              "order": [["connect", 0], ["park", 0], ["stop"], ["disc", 0, "abort"]]}]

    def families(self, tier):
        return [("known", len(self.KNOWN)), ("random", 480 if tier == "quick" else 6000)]

    def floors(self, tier):
        return scaled_floors("C19", ["C19.handshakes", "C19.probe_ok", "C19.stopped", "C19.cli_ok", "C19.started.tcp", "C19.started.unix", "C19.disconnect.abort",
                                     "C19.disconnect.eof", "C19.disconnect.close", "C19.stop_with_clients.1", "C19.connect_after_stop_refused",
                                     "C19.probe_ok_while_parked", "C19.handshake_while_other_pending", "C19.stale_socket_file", "C19.blank_probe_clients",
                                     "C19.restart.earlier_task_pending", "C19.restart.earlier_task_done", "C19.earlier_period_client_leaves_while_serving_again",
                                     "C19.restart.at_once", "C19.stopped_at_once.unix", "C19.stopped_at_once.tcp", "C19.not_serving_right_after_stop"], tier, 12)

    def timeout(self, tier):
        return 900 if tier == "quick" else 7200

    def make_case(self, fam, seed, i, tier):
        from . import c19

        if fam == "known":
            import copy

            return copy.deepcopy(self.KNOWN[i % len(self.KNOWN)])
        return c19.gen_scenario(random.Random(f"{seed}:C19:{i}"))

    def run_case(self, case, verbose=False):
        from . import c19

        w = c19.World(self.mods, case)
        r = w.run()
        sit = r["sit"]
        out = {"viol": r["viol"], "sit": sit, "inconclusive": r["inconclusive"],
               "nontrivial": sit.get("C19.handshakes", 0) > 0 and sit.get("C19.stopped", 0) > 0,
               "sig": hashlib.md5(repr(case["order"]).encode()).hexdigest()[:12], "extra": {}}
        if r["viol"]:
            out["log_tail"] = w.log[-60:]
        if verbose:
            out["log"] = w.log + ["loop errors: " + e[:200] for e in w.loop_errors[:5]]
        out["sample"] = {"case": case, "log_head": w.log[:25]}
        return out


reg(C19Check())
