"""Checks outside the pool world: C20 (queue), C16-C19 (control)."""

from __future__ import annotations

import hashlib
import random

from .checks import reg


class QueueCheck:
    cid = "C20"
    level = "fault_enumeration"
    chunk = 500
    rule = ("family 'sweep': every single cancellation placement (consumer x loop iteration 0..25) over 6 hand-written producer/consumer bases and every "
            "pair of placements on 3 small bases (exhaustive over placements at iteration granularity for those bases); family 'random': random producers/"
            "consumers/body outcomes (normal, raise, cancelled inside, cancelled while waiting, at hand-over), joins and late puts; "
            "non-trivial = a cancellation was delivered or a body failed; distinct = distinct event-kind sequence")
    assumptions = ["CPython 3.12.1 asyncio.Queue semantics", "task_done() calls are counted by a harness subclass of the repository's Queue",
                   "quiescence decided logically; no wall-clock verdicts"]

    def prepare(self):
        from . import mods

        self.mods = mods.load()

    def families(self, tier):
        from . import queue_world as qw

        n = len(qw.sweep_cases())
        return [("sweep", n), ("random", 4000 if tier == "quick" else 200000)]

    def floors(self, tier):
        return {"cancel.waiting": 200, "cancel.inside": 200, "cancelled_waiting": 200, "exit.cancelled": 200, "exit.raise": 200,
                "exit.normal": 2000, "join_returned.waited": 300, "join_returned.immediate": 50}

    def timeout(self, tier):
        return 900 if tier == "quick" else 7200

    def make_case(self, fam, seed, i, tier):
        from . import queue_world as qw

        if fam == "sweep":
            return qw.sweep_scenario(i)
        return qw.gen_scenario(random.Random(f"{seed}:C20:{i}"))

    def run_case(self, case, verbose=False):
        from . import queue_world as qw

        w = qw.QueueWorld(case, self.mods)
        r = w.run()
        sit = r["sit"]
        out = {"viol": r["viol"], "sit": sit, "inconclusive": r["inconclusive"],
               "nontrivial": any(k.startswith("cancel.") for k in sit) or sit.get("exit.raise", 0) > 0,
               "sig": hashlib.md5(repr(r["sig"]).encode()).hexdigest()[:16],
               "extra": {"events": r["events"], "loop_iterations": r["iterations"], "boundary_checks": sit.get("boundary_checks", 0)}}
        log = [" ".join(str(x) for x in e) for e in w.log]
        if r["viol"]:
            out["log_tail"] = log[-60:]
        if verbose:
            out["log"] = log
        out["sample"] = {"scenario": case, "log_head": log[:40]}
        return out


reg(QueueCheck())
