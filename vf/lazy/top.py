"""The functions of vf.targets under a path whose packages are loaded lazily (C17: dotted-path functions)."""
from vf.targets import aecb, block, ccb, eat, ecb, fail, notcoro, one, two, work  # noqa: F401
