"""Package that imports nothing: its sub-modules are only loaded when a dotted path names them (C17)."""
