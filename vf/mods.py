"""Import the repository under test from VERIF_REPO (default /repo), never from site-packages."""

from __future__ import annotations

import importlib
import os
import sys
import types


def load():
    repo = os.environ.get("VERIF_REPO", "/repo")
    src = os.path.join(repo, "src")
    if src not in sys.path[:1]:
        sys.path.insert(0, src)
    for name in list(sys.modules):
        if name == "asyncio_taskpool" or name.startswith("asyncio_taskpool."):
            mod = sys.modules[name]
            f = getattr(mod, "__file__", "") or ""
            if not f.startswith(src):
                del sys.modules[name]
    importlib.invalidate_caches()
    ns = types.SimpleNamespace()
    ns.pool = importlib.import_module("asyncio_taskpool.pool")
    ns.exc = importlib.import_module("asyncio_taskpool.exceptions")
    ns.queue = importlib.import_module("asyncio_taskpool.queue_context")
    ns.src = src
    f = ns.pool.__file__
    if not os.path.realpath(f).startswith(os.path.realpath(src)):
        raise RuntimeError(f"asyncio_taskpool imported from {f}, expected under {src}")
    return ns
