"""Functions that control-session commands can name by dotted path (vf.targets.<name>)."""

from __future__ import annotations

import asyncio
import contextvars

side = contextvars.ContextVar("vf_side", default="?")
calls = []  # (side, function name, args, kwargs items)
_release = None


def reset():
    global _release
    calls.clear()
    _release = None


def release_event():
    global _release
    if _release is None:
        _release = asyncio.Event()
    return _release


def _norm(v):
    if isinstance(v, dict):
        return tuple(sorted((k, _norm(x)) for k, x in v.items()))
    if isinstance(v, (list, tuple)):
        return tuple(_norm(x) for x in v)
    return v


def _rec(name, args, kwargs):
    calls.append((side.get(), name, _norm(args), _norm(kwargs)))


async def work(*args, **kwargs):
    _rec("work", args, kwargs)
    await asyncio.sleep(0)
    return "done"


async def block(*args, **kwargs):
    _rec("block", args, kwargs)
    await release_event().wait()


async def fail(*args, **kwargs):
    _rec("fail", args, kwargs)
    await asyncio.sleep(0)
    raise RuntimeError("boom")


async def one(x):
    _rec("one", (x,), {})
    await asyncio.sleep(0)


async def two(a, b=0):
    _rec("two", (a, b), {})
    await asyncio.sleep(0)


async def eat(*args, **kwargs):
    """Works off the lists it is given: records what it received and empties them."""
    _rec("eat", args, kwargs)
    for a in list(args) + list(kwargs.values()):
        if isinstance(a, list):
            a.clear()
    await asyncio.sleep(0)


def ecb(task_id):
    _rec("ecb", (task_id,), {})


def ccb(task_id):
    _rec("ccb", (task_id,), {})


async def aecb(task_id):
    _rec("aecb", (task_id,), {})
    await asyncio.sleep(0)


def notcoro(*args, **kwargs):
    _rec("notcoro", args, kwargs)
    return None
