"""Sharded runner: children explore, the parent merges, judges, writes evidence and replays."""

from __future__ import annotations

import json
import os
import subprocess
import tempfile
import sys
import time
from collections import Counter

VERIF = os.path.dirname(os.path.dirname(os.path.abspath(__file__)))
PY = "/venv/bin/python" if os.path.exists("/venv/bin/python") else sys.executable


def known_findings():
    p = os.path.join(VERIF, "known_findings.json")
    if not os.path.exists(p):
        return []
    with open(p) as f:
        return json.load(f).get("findings", [])


def match_finding(v, findings, prop):
    """A violation matches a recorded finding only by mechanism: clause + trigger that occurred before it."""
    for f in findings:
        if f["property"] != prop:
            continue
        if v["clause"] not in f["clauses"]:
            continue
        trig = f["trigger"]
        pool = v.get("pool")
        trigs = v.get("triggers", [])
        if pool is not None:
            if f"{trig}@{pool}" in trigs:
                return f
        elif any(t == trig or t.startswith(trig + "@") for t in trigs):
            return f
    return None


def run_children(check_id, tier, seed, units, timeout):
    """units: list of (family, start, count).  Returns list of child outputs (dicts) and list of failures."""
    nproc = min(int(os.environ.get("VERIF_PROCS", "16")), max(1, len(units)))
    env = dict(os.environ)
    env["PYTHONHASHSEED"] = "0"
    env["PYTHONPATH"] = VERIF
    env.setdefault("VERIF_REPO", "/repo")
    pending = list(units)
    running = []
    outs, fails = [], []
    t_end = time.time() + timeout
    while pending or running:
        while pending and len(running) < nproc:
            fam, start, count = pending.pop(0)
            cmd = [PY, "-W", "ignore", "-m", "vf.child", check_id, tier, str(seed), fam, str(start), str(count)]
            # the children report through unnamed temporary files: a pipe nobody drains blocks the child once it holds 64 KiB
            fo, fe = tempfile.TemporaryFile("w+"), tempfile.TemporaryFile("w+")
            p = subprocess.Popen(cmd, stdout=fo, stderr=fe, env=env, cwd=VERIF, text=True)
            p.vf_files = (fo, fe)
            running.append((p, (fam, start, count), time.time()))
        time.sleep(0.02)
        for item in list(running):
            p, unit, t0 = item
            if p.poll() is None:
                if time.time() > t_end:
                    p.kill()
                    p.wait()
                    for f in p.vf_files:
                        f.close()
                    running.remove(item)
                    fails.append((unit, "watchdog"))
                continue
            running.remove(item)
            fo, fe = p.vf_files
            fo.seek(0), fe.seek(0)
            out, err = fo.read(), fe.read()
            fo.close(), fe.close()
            if p.returncode != 0:
                fails.append((unit, f"exit {p.returncode}: {err[-2000:]}"))
                continue
            try:
                outs.append(json.loads(out))
            except Exception as e:  # noqa: BLE001
                fails.append((unit, f"bad output: {e}: {out[-500:]} {err[-1500:]}"))
    return outs, fails


def main(argv=None):
    import argparse

    import logging

    from . import checks

    logging.disable(logging.CRITICAL)
    ap = argparse.ArgumentParser()
    ap.add_argument("check")
    ap.add_argument("--tier", default=os.environ.get("VERIF_TIER", "quick"))
    ap.add_argument("--replay")
    ap.add_argument("--scale", type=float, default=float(os.environ.get("VERIF_SCALE", "1")))
    a = ap.parse_args(argv)
    cid = a.check
    spec = checks.get(cid)
    seed = int(os.environ.get("VERIF_SEED", "0"))
    if a.replay:
        from . import child
        return child.replay(cid, a.replay)
    tier = a.tier if a.tier in ("quick", "thorough") else "quick"
    t0 = time.time()
    units = []
    for fam, n in spec.families(tier):
        n = max(1, int(n * a.scale))
        chunk = max(1, min(spec.chunk, (n + 47) // 48))
        s = 0
        while s < n:
            c = min(chunk, n - s)
            units.append((fam, s, c))
            s += c
    outs, fails = run_children(cid, tier, seed, units, spec.timeout(tier))
    wall = time.time() - t0
    # ---- merge
    sit = Counter()
    sigs = set()
    evals = 0
    viols = []
    samples = []
    fam_evals = Counter()
    extra = {}
    for o in outs:
        evals += o["evals"]
        fam_evals[o["family"]] += o["evals"]
        sit.update(o["sit"])
        sigs.update(o["sigs"])
        viols.extend(o["viol"])
        if len(samples) < 4 and o.get("samples"):
            samples.extend(o["samples"][: 4 - len(samples)])
        for k, v in o.get("extra", {}).items():
            if isinstance(v, dict):
                extra.setdefault(k, Counter()).update(v)
            elif isinstance(v, (int, float)):
                extra[k] = extra.get(k, 0) + v
    findings = known_findings()
    evdir = os.environ.get("VERIF_EVIDENCE_DIR") or os.path.join(VERIF, "evidence")
    repdir = os.path.join(os.path.dirname(evdir), "replays") if os.environ.get("VERIF_EVIDENCE_DIR") else os.path.join(VERIF, "replays")
    os.makedirs(evdir, exist_ok=True)
    os.makedirs(repdir, exist_ok=True)
    real, known = [], {}
    for v in viols:
        f = match_finding(v, findings, cid)
        if f is not None:
            known.setdefault(f["id"], [f, 0])[1] += 1
        else:
            real.append(v)
    for fid, (f, n) in sorted(known.items()):
        print(f"KNOWN-FINDING: property={cid} {f['what']} [{fid}; {n} executions]")
    status = "held"
    lines = []
    if real:
        status = "violated"
        seen = set()
        k = 0
        for v in real:
            key = (v["clause"], tuple(v.get("triggers", [])))
            if key in seen:
                continue
            seen.add(key)
            path = os.path.join("replays", f"{cid}-{k}.json")
            if os.environ.get("VERIF_EVIDENCE_DIR"):
                path = os.path.join(repdir, f"{cid}-{k}.json")
            with open(os.path.join(VERIF, path), "w") as f:
                json.dump(v, f, indent=1, default=str)
            lines.append(f"VIOLATION property={cid} replay={path}")
            print(f"# {v['clause']}: {v['msg']}  (triggers: {', '.join(v.get('triggers', [])) or 'none'})")
            k += 1
            if k >= 5:
                break
    inconclusive = []
    if fails:
        inconclusive.append(f"{len(fails)} child(ren) failed: {fails[0][0]} {fails[0][1][:200]} ... {fails[0][1][-700:]}")
    for name, floor in spec.floors(tier).items():
        if a.scale >= 1 and sit.get(name, 0) < floor:
            inconclusive.append(f"coverage floor missed: {name}={sit.get(name, 0)} < {floor}")
    n_inc = sit.get("_inconclusive", 0)
    if n_inc > max(2, evals // 200):
        inconclusive.append(f"{n_inc} executions were inconclusive (livelock watchdog)")
    ev = {
        "property_id": cid,
        "tier": tier,
        "seed": seed,
        "level": spec.level,
        "coverage": {
            "evaluations": evals,
            "distinct_nontrivial": len(sigs),
            "rule": spec.rule,
            "samples": samples or [{"note": "no sample"}],
            "families": dict(fam_evals),
            "situations": {k: v for k, v in sorted(sit.items()) if not k.startswith("op.")},
            "operations": {k: v for k, v in sorted(sit.items()) if k.startswith("op.")},
            "known_findings_seen": {fid: n for fid, (f, n) in known.items()},
            "status": status if not inconclusive else (status if status == "violated" else "inconclusive"),
            "inconclusive_reasons": inconclusive,
            "exhaustive": False,
        },
        "assumptions": spec.assumptions,
        "wall_s": round(wall, 2),
        "violations": len(real),
    }
    for k, v in extra.items():
        ev["coverage"][k] = dict(v) if isinstance(v, Counter) else v
    if spec.level == "translation_validation":
        ev["coverage"]["programs"] = extra.get("programs", evals)
        ev["coverage"]["disagreements_checked"] = extra.get("disagreements_checked", 0)
    with open(os.path.join(evdir, f"{cid}.json"), "w") as f:
        json.dump(ev, f, indent=1, default=str)
    print(f"{cid} {tier}: {evals} executions, {len(sigs)} distinct non-trivial, {len(real)} violations, "
          f"{sum(n for _, n in known.values())} known-finding hits, {wall:.1f}s")
    kf_clauses = {c for f in findings for c in f.get("clauses", ())}
    for k, n in sorted(sit.items()):
        if k.startswith("_foreign_clause.") and k[len("_foreign_clause."):] not in kf_clauses:
            # not this property's business and not a verdict here, but worth a line: the clause's own check decides it
            print(f"NOTE {cid}: {n} execution(s) raised {k[len('_foreign_clause.'):]}, a clause of another property (decided by that property's check)")
    if real:
        for ln in lines:
            print(ln)
        return 1
    if inconclusive:
        for r in inconclusive:
            print(f"INCONCLUSIVE property={cid} reason={r}")
        return 2
    return 0


if __name__ == "__main__":
    sys.exit(main())
