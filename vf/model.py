"""Shadow-model records (what the harness knows independently of the pool)."""

from __future__ import annotations


class Injected(Exception):
    """An exception the harness raised on purpose from user code."""


class InjectedTypeError(Injected, TypeError):
    pass


class InjectedValueError(Injected, ValueError):
    pass


class InjectedKeyError(Injected, KeyError):
    pass


class InjectedRuntimeError(Injected, RuntimeError):
    pass


class InjectedOSError(Injected, OSError):
    pass


INJECTED_KINDS = [Injected, InjectedTypeError, InjectedValueError, InjectedKeyError, InjectedRuntimeError, InjectedOSError, Injected]


class TaskRec:
    __slots__ = (
        "pool", "tid", "req", "inv", "begun", "finished", "outcome", "pending",
        "owed", "seen", "self_pending", "ccb", "ecb", "complete", "unbegun_cancelled",
        "forget", "task", "events", "susp_after_self", "cancel_ops", "done_unknown", "claim", "counted", "vias", "extra_ok", "q_suspended", "inline_flush", "user_raised", "cb_task",
    )

    def __init__(self, pool, tid, req=None):
        self.pool = pool
        self.tid = tid
        self.req = req
        self.inv = None
        self.begun = False
        self.finished = False  # worker body finished
        self.q_suspended = False
        self.cb_task = None  # the asyncio task the callbacks of this pool task run in (a follow-up task if it was cancelled before its first step)
        self.user_raised = None  # an injected exception that the body or a callback of this task raised
        self.inline_flush = None  # the FlushRec of a flush() this worker awaits inline right now
        self.outcome = None  # 'return' | 'raise' | 'cancelled'
        self.pending = False  # undelivered cancellation
        self.owed = 0
        self.seen = 0
        self.self_pending = False
        self.ccb = 0  # 0 none, 1 entered, 2 exited
        self.ecb = 0
        self.complete = False  # pool task completely finished (as far as known)
        self.unbegun_cancelled = False
        self.forget = "kept"  # kept | maybe | forgotten
        self.task = None  # asyncio.Task seen from inside the worker
        self.events = []  # per-id event kinds, in order
        self.cancel_ops = 0
        self.done_unknown = False
        self.extra_ok = 0  # cancellations that may (or may not) reach its callbacks because the caller of a flush gathering it was cancelled
        self.vias = set()  # routes by which cancellations were requested: id / group / stop
        self.counted = False  # counted in PoolRec.A (admitted, not finished)
        self.claim = None  # request whose group lists this id (pool's claim)

    # model's view of the pool state of this task
    def state(self):
        """'running' | 'cancelled' | 'ended' | 'unknown' (transition not observable)."""
        if self.ecb >= 1 or self.complete:
            return "ended"
        if self.ccb == 1:
            return "cancelled"
        if self.ccb == 2:
            return "ended"  # between ccb exit and ecb entry: same step
        if self.finished:
            # finished, no callback entered yet: only within the same handle
            return "ended" if not self.expects_ccb() else "cancelled"
        if self.unbegun_cancelled:
            return "unknown"
        return "running"

    def expects_ccb(self):
        return self.outcome == "cancelled" or self.unbegun_cancelled


class InvRec:
    __slots__ = ("k", "args", "kwargs", "coro", "tid", "raised", "elem")

    def __init__(self, k, args, kwargs):
        self.k = k
        self.args = args
        self.kwargs = kwargs
        self.coro = None
        self.tid = None
        self.raised = False
        self.elem = None


class ReqRec:
    def __init__(self, idx, pool, kind, spec):
        self.idx = idx
        self.pool = pool
        self.kind = kind  # apply|map|starmap|doublestarmap|start|probe
        self.spec = spec
        self.group = None
        self.accepted = False
        self.cancelled_at = None  # log index
        self.invs = []
        self.tids = []  # task ids attributed, in order seen
        self.live = 0
        self.pulled = 0
        self.exhausted = False
        self.n = spec.get("n", 0)  # elements (map) / num (apply)
        self.nc = spec.get("nc", 1)
        self.bad = set(spec.get("bad", ()))  # element indices whose call fails
        self.callraise = set(spec.get("callraise", ()))
        self.empties = set(spec.get("empties", ())) - self.bad if kind in ("starmap", "doublestarmap") else set()
        self.args_obj = None
        self.kwargs_obj = None
        self.elements = None
        self.func = None
        self.meta = None  # spawner task (all_tasks difference)
        self.accept_at = None
        self.skipped = 0
        self.issued_in_iter = None
        self.observable_pulls = True
        self.locked_after = False
        self.closed_wait = False
        self.rejected = False
        self.n_claimed = 0

    def expected_total(self):
        """Invocations that must be made if never group-cancelled."""
        if self.kind in ("apply", "start", "probe"):
            return self.n
        return self.n - len(self.bad)


class PoolRec:
    def __init__(self, idx, obj, cls, size, spec):
        self.idx = idx
        self.obj = obj
        self.cls = cls  # 'T' | 'S'
        self.size = size  # int or None (unbounded)
        self.orig_size = size
        self.spec = spec
        self.locked = False
        self.closed = False
        self.closing = False
        self.tasks = {}  # tid -> TaskRec
        self.reqs = []
        self.live_groups = {}  # name -> ReqRec
        self.dead_groups = []
        self.L = 0  # workers begun and not finished
        self.cb_in_progress = 0
        self.max_id = -1
        self.flushes = []  # active flush records
        self.sreq_total = 0
        self.s_inv = 0
        self.s_invs = []
        self.pstr = str(obj)
        self.gac_done = False
        self.size_changed = False
        self.probe_mode = False
        self.cb_cancel_raised = 0  # user callbacks that re-raised a CancelledError reaching them
        self.s_live_by_group = {}
        self.unlocked_after_lock = False
        self.gac_call_at = None
        self.gac_raised = None
        self.close_at = None
        self.flush_count = 0
        self.size_track = False
        self.closed_checked = False
        self.sreq = None
        self.group_cancels = 0
        self.stop_calls = 0
        self.size_set_iter = -10
        self.A = 0  # tasks admitted (created) and not finished / cancelled-before-start

    def cap(self):
        return float("inf") if self.size is None else self.size


class FlushRec:
    def __init__(self, pool, rex, call_at, must, live_ids):
        self.pool = pool
        self.rex = rex
        self.call_at = call_at
        self.must = must  # ids complete before the call
        self.live_ids = live_ids
        self.ret_at = None
        self.raised = None
        self.done = False
        self.suspended = 0
        self.overlap_cb = False
        self.overlap_other = False
        self.abandoned = False
        self.in_cb_at_call = set()
