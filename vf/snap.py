"""Public-state snapshot of a pool (shared by the control-world checks)."""

from __future__ import annotations

GROUPS = ["", "a\tb", "x\u00a0y", "ü\u3000z", "g1", "g2", "grp", "apply-work-group-0", "x_y", "G", "7", "start-group-0", "start-group-1", "map-one-group-0",
          "apply-work-group-1", "apply-block-group-0", "map-work-group-0", "starmap-work-group-0", "doublestarmap-work-group-0"]


def snapshot(pool):
    groups = {}
    for g in GROUPS:
        try:
            groups[g] = frozenset(pool.get_group_ids(g))
        except Exception:  # noqa: BLE001
            pass
    return (pool.num_running, pool.num_cancelled, pool.num_ended, pool.is_locked, pool.is_full, pool.pool_size, groups)


