"""C16: handshake and command surface for every pool class and terminal width."""

from __future__ import annotations

import argparse
import re

from . import control
from .control import ControlWorld, first_doc_line, public_members


def squash(s):
    return "".join(s.split())


def width_in_domain(width):
    """Can a plain argparse parser of this width format help at all?"""
    try:
        fc = lambda prog: argparse.ArgumentDefaultsHelpFormatter(prog, width=width)  # noqa: E731
        p = argparse.ArgumentParser(prog="", usage="[-h] [command] ...", formatter_class=fc)
        sub = p.add_subparsers(title="Commands", metavar="(A command followed by '-h' or '--help' will show command-specific help.)")
        a = sub.add_parser("gather-and-close", prog="gather-and-close", help="Gathers (i.e. awaits) **all** tasks in the pool, then closes it.",
                           description="Gathers (i.e. awaits) **all** tasks in the pool, then closes it.", formatter_class=fc)
        a.add_argument("-r", "--return-exceptions", action="store_true", help="<class 'bool'>")
        a.add_argument("func", help="typing.Callable[..., typing.Coroutine[typing.Any, typing.Any, typing.Any]]")
        a.add_argument("-n", "--num-concurrent", default=1, type=int, help="<class 'int'>")
        p.format_help()
        a.format_help()
        a.format_usage()
        return True
    except Exception:  # noqa: BLE001
        return False


class World(ControlWorld):
    def __init__(self, mods, case):
        super().__init__(mods)
        self.case = case

    def make_pool(self):
        from . import extpools, targets

        P = self.mods.pool
        name = self.case.get("name")
        kw = {"name": name} if name else {}
        c = self.case["cls"]
        if c == "TaskPool":
            return P.TaskPool(**kw)
        if c == "SimpleTaskPool":
            return P.SimpleTaskPool(targets.work, **kw)
        if c == "ExtTaskPool":
            return extpools.ExtTaskPool(**kw)
        return extpools.ExtSimpleTaskPool(targets.work, **kw)

    async def _main(self):
        width = self.case["width"]
        if not width_in_domain(width):
            self.sit["C16.width_out_of_domain"] += 1
            return
        pool = self.make_pool()
        cls = type(pool)
        s = await self.open(pool, width)
        self.note("handshake", self.case, "exc" if s.handshake_exc else "ok")
        if s.handshake_exc is not None or self.viol:
            return
        self.sit["C16.handshake_ok"] += 1
        members = public_members(cls)
        names = {n.replace("_", "-") for n, _ in members}
        if self.case.get("long_first"):
            # an unusually long reply (the error message echoes the token) must not spoil the replies that follow
            got = await self.send(s, "x" * self.case["long_first"])
            if len(got) != 1 or len(got[0]) < self.case["long_first"]:
                self.violate("C16.command_set", f"a {self.case['long_first']}-character unknown command was answered with {[len(g) for g in got]} bytes")
            self.sit["C16.long_reply_first"] += 1
        # top-level help
        got = await self.send(s, "-h")
        top = b"".join(got).decode()
        if len(got) != 1 or not top.strip():
            self.violate("C16.command_set", f"top-level -h answered with {len(got)} writes / empty text")
        for n in names:
            if squash(n) not in squash(top):
                self.violate("C16.command_set", f"command {n!r} missing from the top-level help")
        # exact command set via the parser's own 'invalid choice' message
        got = await self.send(s, "zzz-no-such-command")
        txt = b"".join(got).decode()
        m = re.search(r"choose from (.*)\)", squash(txt).replace(",", ", "))
        if "invalidchoice" in squash(txt):
            listed = set(re.findall(r"'([^']+)'", txt.split("choose from", 1)[1])) if "choose from" in txt else None
            if listed is None:
                listed = set(re.findall(r"'([^']+)'", squash(txt).split("choosefrom", 1)[1])) if "choosefrom" in squash(txt) else None
            if listed is not None:
                if listed != names:
                    self.violate("C16.command_set", f"commands offered {sorted(listed)} != public members {sorted(names)}")
                else:
                    self.sit["C16.command_set_exact"] += 1
        else:
            self.violate("C16.private_hidden", f"unknown command answered with {txt[:120]!r}")
        # every member: '<cmd> -h'
        for n, member in members:
            cmd = n.replace("_", "-")
            flag = "-h" if (len(n) % 2) else "--help"
            got = await self.send(s, f"{cmd} {flag}")
            txt = b"".join(got).decode()
            self.note("help", cmd, len(txt))
            if len(got) != 1:
                self.violate("C16.member_help", f"'{cmd} {flag}' answered with {len(got)} writes")
                continue
            sq = squash(txt)
            if not sq.startswith("usage:" + squash(cmd)):
                self.violate("C16.member_help", f"'{cmd} {flag}' (width {width}) does not start with a usage text for {cmd}: {txt[:100]!r}")
                continue
            if isinstance(member, property):
                doc = first_doc_line(member.fget) if member.fset is None else f"Get/set the `{cls.__name__}.{cmd}` property"
            else:
                doc = first_doc_line(member)
            if doc and squash(doc).replace("-", "") not in sq.replace("-", ""):
                self.violate("C16.member_help", f"'{cmd} {flag}' (width {width}) does not show the first docstring line {doc!r}: {txt[:200]!r}")
                continue
            self.sit["C16.member_help_ok"] += 1
        if width <= 9:
            # argparse never formats narrower than 11 columns of text: all tiny widths must give byte-identical help
            # (a width that is silently replaced by the server's own terminal width shows here)
            ref_w = 7 if width != 7 else 3  # (empirically CPython 3.12 argparse output is identical for widths 0..11)
            s2 = await self.open(pool, ref_w)
            if s2.handshake_exc is None:
                for n, member in members[:6]:
                    cmd = n.replace("_", "-")
                    a = b"".join(await self.send(s, f"{cmd} -h"))
                    b = b"".join(await self.send(s2, f"{cmd} -h"))
                    if a != b:
                        self.violate("C16.member_help", f"'{cmd} -h' differs between terminal widths {width} and {ref_w} although both are below argparse's minimum: "
                                                        f"{len(a)} vs {len(b)} bytes, longest line {max(map(len, a.decode().splitlines() or ['']))} vs {max(map(len, b.decode().splitlines() or ['']))}")
                        break
                else:
                    self.sit["C16.tiny_widths_identical"] += 1
                s2.reader.feed_eof()
                await self.idle()
        # another client with another terminal width (on another pool of the process) must not change what this one is shown
        sample = members[:: max(1, len(members) // 4)][:4]
        first = {}
        for n, member in sample:
            cmd = n.replace("_", "-")
            first[cmd] = b"".join(await self.send(s, f"{cmd} -h"))
        other_w = width + 57 if width < 200 else width - 61
        s3 = await self.open(self.make_pool(), other_w)
        if s3.handshake_exc is None:
            await self.send(s3, "-h")
            for cmd, was in first.items():
                now = b"".join(await self.send(s, f"{cmd} -h"))
                if now != was:
                    self.violate("C16.member_help", f"'{cmd} -h' (width {width}) changed after a client of width {other_w} had connected: longest line "
                                                    f"{max(map(len, was.decode().splitlines() or ['']))} -> {max(map(len, now.decode().splitlines() or ['']))}")
                    break
            else:
                self.sit["C16.help_stable_with_other_width"] += 1
            s3.reader.feed_eof()
            await self.idle()
        # "available as a command": the read-only members and the static methods are also executed (they cannot disturb
        # anything), the reply must be what the direct access gives
        import inspect as _inspect
        import random as _random

        from .control import gen_command

        rng = _random.Random(f"{self.case.get('cls')}:{width}")
        for n, member in members:
            cmd = n.replace("_", "-")
            static = isinstance(_inspect.getattr_static(cls, n), staticmethod)
            if isinstance(member, property):
                line, want = cmd, str(getattr(pool, n))
            elif static:
                c = gen_command(cls, rng, only=[n])
                line = c.line
                try:
                    r = getattr(pool, n)(*c.pos, **c.kw)
                    if _inspect.isawaitable(r):
                        r = await r
                    want = "ok" if r is None else str(r)
                except Exception as e:  # noqa: BLE001
                    want = str(e)
            else:
                continue
            got = await self.send(s, line)
            txt = b"".join(got).decode()
            if len(got) != 1 or txt != want + "\n":
                self.violate("C16.member_runs", f"{'static method' if static else 'property'} command {line!r} answered {txt[:120]!r}, the member itself gives {want!r}")
            else:
                self.sit["C16.member_runs_ok" + (".static" if static else "")] += 1
        # non-public members are not commands
        priv = [n for n, _ in __import__("inspect").getmembers(cls) if n.startswith("_") and not n.startswith("__")][:6] + ["__init__", "__str__"]
        for n in priv:
            for form in (n.replace("_", "-"), n):
                got = await self.send(s, form)
                txt = b"".join(got).decode()
                if "usage:" not in txt:
                    self.violate("C16.private_hidden", f"non-public member {n!r} sent as {form!r} was not rejected with a usage message: {txt[:100]!r}")
                else:
                    self.sit["C16.private_rejected"] += 1
        if s.task.done():
            self.violate("C16.member_help", f"the session ended during help requests: {s.task}")
        s.reader.feed_eof()
        await self.idle()


# ---------------------------------------------------------------------- over real sockets
from . import c19  # noqa: E402


class ServerWorld(c19.World):
    """C16 over a real control server: several clients whose connects and handshakes interleave; every one of them must
    get the pool name and a working command surface."""

    def violate(self, clause, msg):
        # everything that goes wrong here is about the handshake / command surface
        if not clause.startswith("C16."):
            clause = "C16.handshake" if "handshake" in msg or "connect" in msg else "C16.member_help"
        super().violate(clause, msg)

    async def _main2(self):
        sc = self.sc
        started = await self.start_server(clause="C16.handshake")
        if started is None:
            return
        srv, task = started
        self.serving_tasks = [task]
        for period in range(sc.get("periods", 1)):
            if period:
                # the same server object serves again after it was stopped and all its clients left
                self.round = period
                started = await self.restart_server(srv, task)
                if started is None:
                    return
                srv, task = started
                self.serving_task = task
                self.stopped = False
                self.sit["C16.served_again"] += 1
            await self._period(period)
            if any(getattr(cl, "parked", False) for cl in self.clients.values()):
                # release whoever waits for the close, while it is still connected
                self.pool.lock()
                await self.pool.gather_and_close()
                await self.settle()
                for cl in self.clients.values():
                    if getattr(cl, "parked", False):
                        got = cl.take()
                        if got != b"True\n":
                            self.violate("C16.member_runs", f"until-closed answered {got!r} once the pool was closed, expected b'True\\n'")
                        cl.parked = False
            for cl in self.clients.values():
                if cl.writer is not None and not cl.writer.is_closing():
                    await self.disconnect(cl, "close")
            task.cancel()
            self.stopped = True
            await self.settle()

    async def _period(self, period):
        sc = self.sc
        cls = type(self.pool)
        members = public_members(cls)
        base = period * 10
        for act in sc["order"]:
            kind, c = act[0], act[1] + base
            if kind == "open":
                await self.connect(c, hello=False)
            elif kind == "connect":
                await self.connect(c)
            elif kind == "hello":
                cl = self.clients.get(c)
                if cl is not None and getattr(cl, "pending_hello", False):
                    await self.hello(cl)
        # every client that shook hands must be able to use the command surface
        import random as _r

        rng = _r.Random(sc["seed"] + period)
        mine = [cl for c, cl in sorted(self.clients.items()) if cl.open and c >= base]
        parked = None
        if sc.get("park") and period == sc.get("periods", 1) - 1 and len(mine) >= 2:
            # one client sits in a command that waits (until the pool is closed); the others must not notice
            parked = mine[0]
            got = await self.command(parked, "until-closed")
            if got:
                self.violate("C16.member_runs", f"until-closed answered {got!r} although the pool is open")
            parked.parked = True
            self.sit["C16.client_parked_meanwhile"] += 1
        for c, cl in sorted(self.clients.items()):
            if not cl.open or c < base or cl is parked:
                continue
            for probe, attr in (("num-running", "num_running"), ("is-locked", "is_locked")):
                got = await self.command(cl, probe)
                want = (str(getattr(self.pool, attr)) + "\n").encode()
                if got != want:
                    self.violate("C16.member_runs", f"client {c}: {probe!r} answered {got!r}, the pool says {want!r}" + (" (another client is parked in until-closed)" if parked else ""))
                    break
            else:
                self.sit["C16.socket_probe_ok"] += 1
            for n, member in rng.sample(members, min(4, len(members))):
                cmd = n.replace("_", "-")
                got = await self.command(cl, f"{cmd} -h")
                txt = got.decode(errors="replace")
                if not squash(txt).startswith("usage:" + squash(cmd)):
                    self.violate("C16.member_help", f"client {c} (handshake order {sc['order']}, serving period {period}): '{cmd} -h' answered {txt[:80]!r}")
                    break
                self.sit["C16.member_help_ok"] += 1
            else:
                self.sit["C16.socket_clients_ok"] += 1


def gen_server_case(rng):
    n = rng.choice([1, 2, 2, 3])
    order = []
    pending = []
    for c in range(n):
        if rng.random() < 0.6:
            order.append(["open", c])
            pending.append(c)
        else:
            order.append(["connect", c])
        while pending and rng.random() < 0.4:
            order.append(["hello", pending.pop(rng.randrange(len(pending)))])
    while pending:
        order.append(["hello", pending.pop(rng.randrange(len(pending)))])
    return {"server": True, "transport": rng.choice(["tcp", "unix"]), "cls": rng.choice(["T", "S"]), "order": order, "nclients": n, "seed": rng.getrandbits(32),
            "periods": rng.choice([1, 1, 2, 3]), "park": rng.random() < 0.5}
