"""Texts for MANIFEST.json."""

NOTES = ("All 20 checks are runtime monitors over real executions of the code in /repo (VERIF_REPO overrides the tree; VERIF_SEED is mixed into every case seed; "
         "VERIF_PROCS limits the number of child processes, default 16). Exit 0 = held on everything observed, 1 = VIOLATION (replay file written, "
         "`./check <id> --replay <file>` re-executes it and prints the event log), 2 = INCONCLUSIVE (coverage floor missed, child died, watchdog). "
         "known_findings.json lists recorded defects by mechanism (oracle clause + trigger tag computed from the scenario, per pool); every recorded finding has a hand-written "
         "history in the check's `known` family, so its KNOWN-FINDING line is printed on every run while the defect exists. No source hooks were needed: hooks.source_commits is empty. "
         "Repository defects found by these checks and repaired are unguarded 'fix:' commits in /repo (see DESIGN.md section 6 and known_findings.json 'fixed').")

_POOL = ("Exploration by runtime monitoring. Real TaskPool/SimpleTaskPool objects run generated hostile user programs in a monitored asyncio loop "
         "(handle counter, iteration counter, hook after every handle). Oracles: online assertions at every handle boundary and every user-code point (worker begin/resume, "
         "callbacks, argument iterators, call sites), a shadow model around every public call, checks at logical quiescence, offline checks of the per-task event log. "
         "Families: random scenarios (biased per property), placement sweeps (one or two perturbing operations at every loop iteration and every user-code point of 12 bases), "
         "and hand-written histories for recorded findings. Decides the executions produced; evidence lists the situations actually reached and the coverage floors. Not a proof.")

LEVEL_DEFAULT = _POOL

LEVEL_TEXT = {
    "C09": _POOL + " Additionally a differential 'no-trace' family: every scenario is re-run with the requests the model expects to be rejected left out, and the two event logs "
                   "(generated names, task ids, iteration/handle stamps) must be identical.",
    "C12": "Fault enumeration by runtime monitoring: randomized fault plans (raising bodies, call sites, plain/async end and cancel callbacks) plus placement sweeps of flush/close over "
           "a raising base; after the faults, completion of all other requests and the capacity probe are checked, what flush/gather_and_close raise is compared by identity with the injected "
           "exception objects, and a differential 'twin' family re-runs each scenario with every injected failure replaced by success at the same point and demands an identical event log.",
    "C16": "Exploration by runtime monitoring of the real ControlSession/ControlParser through a real StreamReader and a recording writer: for 4 pool classes x sampled terminal widths the "
           "handshake reply, the help of every public member enumerated with inspect (not from the parser), the exact command set and the rejection of non-public names are checked, read-only members and static methods are executed as commands; a socket family repeats handshake and help over "
           "one to three serving periods of the same server object.",
    "C17": "Translation validation by differential execution: each generated well-formed command line (the program) is sent to a served pool while the equivalent direct Python call is made "
           "on an identically configured twin pool; reply text, public state and the multiset of worker/callback invocations (tagged by a contextvar) must agree after every command; dotted paths also lead into lazily imported packages, subclasses override inherited members, and a decoy pool served in the same process gets the same lines.",
    "C18": "Exploration by runtime monitoring of 1-3 simultaneous real sessions fed valid, invalid-by-construction, mutated, junk and probe lines (whole, split across segments, batched): "
           "writes per line are counted at logical quiescence, replies to state-independent lines are compared with a fresh solo session, probe replies with the pool's own value, "
           "stdout/stderr are captured, SystemExit is trapped.",
    "C19": "Exploration by runtime monitoring over real loopback TCP and Unix sockets: real Control servers, raw stream clients with scripted connect / deferred handshake / command / park / "
           "disconnect (close, half-close, abort) and the bundled CLI client as a subprocess, with the stop placed anywhere and up to three serving periods per server object; verdicts are taken at socket quiescence "
           "(consecutive idle 1 ms ticks with an empty selector); a 60 s wall-clock watchdog yields INCONCLUSIVE only.",
    "C20": "Fault enumeration by runtime monitoring of the real Queue: every single cancellation placement (consumer x loop iteration) over 6 producer/consumer bases and every pair on 3 bases "
           "is enumerated completely in both tiers, plus random scenarios; task_done() calls are counted per consumer by a harness subclass, join() is judged against the balance of puts and "
           "exited blocks at event granularity.",
}

LEVEL_NOTE = ("Trusted: CPython 3.12.1 asyncio, the harness (vf/), the shadow model's reading of the property statement. Schedules are natural asyncio schedules of generated user programs "
              "(no yields injected into library code, ready queue never reordered); quiescence is decided logically (no wall-clock verdicts except C19's socket ticks). "
              "Coverage floors were calibrated on the repaired tree (0.4 x minimum over 5 seeds).")

TECHNIQUE = {
    "C01": "runtime monitoring: online invariant at every handle boundary and user-code point (live workers, num_running vs size; is_full at quiescence)",
    "C02": "runtime monitoring: conservation check at quiescence (num_running = workers in flight), exactly-once end callback over the event log, capacity probe",
    "C03": "runtime monitoring: per-task trace checker (event-order regex, callback state probes via cancel(id) error class, counter equation at every boundary)",
    "C04": "runtime monitoring: shadow-model count/argument-identity checker over invocation events, lock/close placed by sweeps",
    "C05": "runtime monitoring: online bounds (num_concurrent, laziness via counting iterator) + work-conservation at quiescence + offline exactly-once/order",
    "C06": "runtime monitoring: shadow model of owed vs observed CancelledError deliveries per task (suspension points in user code and inside the library's Queue), error-class oracle around every cancel() call; session family: cancel as a control command with a decoy pool, compared with a twin pool",
    "C07": "runtime monitoring: no-start/no-pull-after online checks, delivery accounting per route, sibling completion at final quiescence",
    "C08": "runtime monitoring: return-instant snapshot, empty log suffix after close, until_closed waiters, closed-pool rejection probes, progress by quiescence",
    "C09": "runtime monitoring: public-state snapshot around every rejected call + differential no-trace twin run",
    "C10": "runtime monitoring: get_group_ids vs harness attribution (task names, callback closures) at quiescence; disjointness at every boundary; name pattern/freshness per request",
    "C11": "runtime monitoring: density of ids learned at every boundary, task-name/callback-id agreement, distinct names of unnamed pools",
    "C12": "runtime monitoring with fault injection: identity of raised exceptions, completion + capacity after faults, differential success/failure twin run",
    "C13": "runtime monitoring: must-forget / must-keep sets per flush interval, per-id probes at quiescence, KeyError detection in pool tasks",
    "C14": "runtime monitoring: reference-model comparison of stop()'s return value and cancellation deliveries over gap-producing histories",
    "C15": "runtime monitoring: pool_size read at every boundary, admission judged at task creation, waiting-with-room check at quiescence",
    "C16": "runtime monitoring: reply checker over enumerated members x terminal widths",
    "C17": "differential execution against a twin pool driven by direct calls (translation validation of command lines)",
    "C18": "runtime monitoring: write counter per line at quiescence, reference-session comparison, captured stdout/stderr",
    "C19": "runtime monitoring over real sockets with socket-quiescence verdicts and CLI subprocess output checking",
    "C20": "runtime monitoring: exhaustive cancellation-placement sweep + random, task_done counting, join balance oracle",
}

NOT_YET = {}
