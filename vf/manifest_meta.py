"""Texts for MANIFEST.json."""

NOTES = ("All checks are runtime monitors over real executions of the code in /repo (VERIF_REPO overrides the tree). "
         "Exit 0 = held on everything observed, 1 = VIOLATION (replay file written), 2 = INCONCLUSIVE (coverage floor missed, child died, watchdog). "
         "known_findings.json lists recorded defects by mechanism (oracle clause + trigger); see DESIGN.md.")

LEVEL_DEFAULT = ("Exploration by runtime monitoring: thousands of randomized hostile scenarios (plus systematic placement sweeps) run against the real pool in a "
                 "monitored event loop; oracles observe every handle boundary, every user-code point and every quiescent point. Decides the executions produced, "
                 "reported with the situations actually reached; not a proof.")

LEVEL_TEXT = {}

LEVEL_NOTE = ("Trusted: CPython 3.12.1 asyncio, the harness (vf/), the shadow model's reading of the property statement. "
              "Schedules are natural asyncio schedules of generated user programs; quiescence is decided logically (no wall-clock verdicts in the pool/queue worlds).")

TECHNIQUE = {}

NOT_YET = {}
