#!/bin/sh
# usage: tools/try_seed.sh <worktree-with-change-applied> <Cxx> [Cyy ...]   (runs quick checks against that tree; never touches /repo)
WT=$1; shift
for c in "$@"; do
  VERIF_REPO=$WT VERIF_EVIDENCE_DIR=/tmp/seedev/evidence timeout 900 /verif/check $c 2>&1 | grep -v "^KNOWN" | tail -4
done
