#!/usr/bin/env python3
"""Regenerate MANIFEST.json from vf.checks (run from /verif)."""
import json, os, sys
sys.path.insert(0, os.path.dirname(os.path.dirname(os.path.abspath(__file__))))
from vf import checks
try:
    from vf import checks_more  # noqa
except ImportError:
    pass
import vf.manifest_meta as meta

props = [json.loads(l)["id"] for l in open("properties.jsonl")]
out = {
    "version": 1,
    "setup_cmd": "true",
    "hooks": {
        "guard": "ASYNCIO_TASKPOOL_VERIF",
        "enable": "no source hooks are needed: all monitors attach from outside (event-loop subclass, harness-owned user code, stream objects); the guard name is reserved only",
        "baseline_off_cmd": "cd /repo && /venv/bin/python -m pytest -ra -q -p no:cacheprovider --timeout=900 --continue-on-collection-errors",
        "source_commits": [],
        "add_only": True,
    },
    "engines": [
        {"name": "vf", "path": "vf/", "serves_properties": [p for p in props if p in checks.CHECKS],
         "kind_free_text": "runtime monitoring: real pool/session/server objects in a monitored asyncio loop; online invariant hooks at every handle boundary and user-code point, shadow-model trace checkers, offline event-log checkers, differential twin runs"}
    ],
    "checks": [],
    "notes": meta.NOTES,
    "not_applicable": [],
}
for p in props:
    if p in checks.CHECKS:
        c = checks.CHECKS[p]
        out["checks"].append({
            "property_id": p,
            "quick_cmd": f"./check {p} --tier quick",
            "thorough_cmd": f"./check {p} --tier thorough",
            "evidence_file": f"evidence/{p}.json",
            "replay_cmd_template": f"./check {p} --replay {{path}}",
            "engine": "vf",
            "level_claimed": {"category": c.level, "text": meta.LEVEL_TEXT.get(p, meta.LEVEL_DEFAULT), "design_ref": f"DESIGN.md section 5, {p}"},
            "level_note": meta.LEVEL_NOTE,
            "technique": meta.TECHNIQUE.get(p, "runtime monitoring: online invariant + shadow-model trace checker over randomized hostile workloads"),
        })
    else:
        out["not_applicable"].append({"property_id": p, "reason": meta.NOT_YET.get(p, "check not built yet in this round (runtime monitor planned, see DESIGN.md section 5)")})
json.dump(out, open("MANIFEST.json", "w"), indent=1)
print("checks:", len(out["checks"]), "not_applicable:", len(out["not_applicable"]))
