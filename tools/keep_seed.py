#!/usr/bin/env python3
"""Validate a seeded change (SEED/patch.diff + SEED/demo.py produced in a scratch worktree) in a FRESH worktree of /repo HEAD
and keep it under /verif/seeded/<id>/.   usage: tools/keep_seed.py <seed-id> <dir-with-SEED> <property> [extra properties...]"""
import json, os, shutil, subprocess, sys, time
VERIF = os.path.dirname(os.path.dirname(os.path.abspath(__file__)))
sid, src, prop = sys.argv[1:4]
extra = sys.argv[4:]
seed = os.path.join(src, "SEED")
wt = f"/tmp/val-{sid}"
subprocess.run(["git", "-C", "/repo", "worktree", "remove", "--force", wt], capture_output=True)
subprocess.run(["git", "-C", "/repo", "worktree", "add", "--detach", "-f", wt], check=True, capture_output=True)
try:
    shutil.copytree(seed, os.path.join(wt, "SEED"))
    env = {**os.environ, "PYTHONPATH": os.path.join(wt, "src")}
    def run(cmd, **kw):
        return subprocess.run(cmd, cwd=wt, env=env, capture_output=True, text=True, **kw)
    ran = []
    d0 = run(["/venv/bin/python", "SEED/demo.py"], timeout=300)
    ran.append(f"demo on the unchanged tree: exit {d0.returncode}")
    a = run(["git", "apply", "SEED/patch.diff"])
    ran.append(f"git apply SEED/patch.diff: exit {a.returncode} {a.stderr.strip()[:200]}")
    t = run(["/venv/bin/python", "-m", "pytest", "-q", "-p", "no:cacheprovider", "--timeout=600"])
    tests_ok = t.returncode == 0
    ran.append(f"repo tests with change: {'pass' if tests_ok else 'FAIL'} ({t.stdout.strip().splitlines()[-1] if t.stdout.strip() else ''})")
    d1 = run(["/venv/bin/python", "SEED/demo.py"], timeout=300)
    ran.append(f"demo with change: exit {d1.returncode}")
    results = {}
    for c in [prop] + extra:
        r = subprocess.run([os.path.join(VERIF, "check"), c], capture_output=True, text=True,
                           env={**os.environ, "VERIF_REPO": wt, "VERIF_EVIDENCE_DIR": f"/tmp/seedev-{sid}/evidence"})
        results[c] = {0: "held (MISSED)" if c == prop else "held", 1: "VIOLATION", 2: "inconclusive"}.get(r.returncode, str(r.returncode))
        first = [l for l in r.stdout.splitlines() if l.startswith("# ")][:2]
        ran.append(f"./check {c} (quick, VERIF_REPO=<fresh worktree with patch>): {results[c]} {' | '.join(first)[:300]}")
    ok = a.returncode == 0 and tests_ok and d1.returncode != 0 and d0.returncode == 0
    print("\n".join(ran)); print("VALID SEED" if ok else "INVALID SEED")
    if ok:
        dst = os.path.join(VERIF, "seeded", sid)
        os.makedirs(dst, exist_ok=True)
        for f in ("patch.diff", "demo.py", "notes.md"):
            if os.path.exists(os.path.join(seed, f)):
                shutil.copy(os.path.join(seed, f), os.path.join(dst, f))
        notes = open(os.path.join(seed, "notes.md")).read() if os.path.exists(os.path.join(seed, "notes.md")) else ""
        json.dump({"id": sid, "breaks_property": prop, "needs_to_manifest": notes.strip()[:1500], "what_i_ran": ran, "check_results": results,
                   "validated_at": time.strftime("%Y-%m-%d %H:%M"), "repo_head": subprocess.run(["git", "-C", "/repo", "log", "--format=%h", "-1"], capture_output=True, text=True).stdout.strip()},
                  open(os.path.join(dst, "meta.json"), "w"), indent=1)
finally:
    subprocess.run(["git", "-C", "/repo", "worktree", "remove", "--force", wt], capture_output=True)
    shutil.rmtree(wt, ignore_errors=True)
    shutil.rmtree(f"/tmp/seedev-{sid}", ignore_errors=True)
