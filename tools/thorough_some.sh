#!/bin/sh
# thorough tier of the checks named in $CHECKS for the seeds in $SEEDS (used with `vp run`)
cd "$(dirname "$0")/.." || exit 1
for seed in ${SEEDS:-1}; do
  for c in ${CHECKS:-C02 C03 C04 C08 C12 C13}; do
    VERIF_SEED=$seed VERIF_EVIDENCE_DIR=$PWD/.thorough/ev$seed/evidence ./check $c --tier thorough 2>&1 | grep -v "^KNOWN" | tail -4
  done
done
