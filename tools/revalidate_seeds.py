#!/usr/bin/env python3
"""Re-validate every kept seed against /repo HEAD: the patch applies in a fresh worktree, the repository's tests pass with it,
the demonstration fails with it (exit 1) - the demonstration on the unchanged tree is checked once per run of this script
for a sample only (it was checked when the seed was kept).  usage: tools/revalidate_seeds.py [seed-id ...]"""
import json, os, subprocess, sys, shutil
from concurrent.futures import ThreadPoolExecutor
VERIF = os.path.dirname(os.path.dirname(os.path.abspath(__file__)))
ids = sys.argv[1:] or sorted(d for d in os.listdir(os.path.join(VERIF, "seeded")) if os.path.isdir(os.path.join(VERIF, "seeded", d)))


def one(sid):
    wt = f"/tmp/reval-{sid}"
    subprocess.run(["git", "-C", "/repo", "worktree", "remove", "--force", wt], capture_output=True)
    shutil.rmtree(wt, ignore_errors=True)
    subprocess.run(["git", "-C", "/repo", "worktree", "add", "--detach", "-f", wt], check=True, capture_output=True)
    try:
        env = {**os.environ, "PYTHONPATH": os.path.join(wt, "src")}
        seed = os.path.join(VERIF, "seeded", sid)
        d0 = subprocess.run(["/venv/bin/python", os.path.join(seed, "demo.py")], cwd=wt, env=env, capture_output=True, timeout=300).returncode
        a = subprocess.run(["git", "apply", os.path.join(seed, "patch.diff")], cwd=wt, capture_output=True, text=True)
        if a.returncode:
            return sid, "PATCH DOES NOT APPLY"
        t = subprocess.run(["/venv/bin/python", "-m", "pytest", "-q", "-p", "no:cacheprovider", "-x"], cwd=wt, env=env, capture_output=True, text=True, timeout=600)
        d1 = subprocess.run(["/venv/bin/python", os.path.join(seed, "demo.py")], cwd=wt, env=env, capture_output=True, timeout=300).returncode
        ok = t.returncode == 0 and d1 != 0 and d0 == 0
        return sid, "ok" if ok else f"BROKEN: tests exit {t.returncode}, demo without {d0}, with {d1}"
    except subprocess.TimeoutExpired:
        return sid, "BROKEN: timeout"
    finally:
        subprocess.run(["git", "-C", "/repo", "worktree", "remove", "--force", wt], capture_output=True)
        shutil.rmtree(wt, ignore_errors=True)


with ThreadPoolExecutor(max_workers=int(os.environ.get("REVAL_PROCS", "6"))) as ex:
    res = list(ex.map(one, ids))
bad = [(s, r) for s, r in res if r != "ok"]
print(f"{len(res) - len(bad)} of {len(res)} seeds valid against /repo HEAD")
for s, r in bad:
    print(s, r)
sys.exit(1 if bad else 0)
