#!/usr/bin/env python3
"""(Re)write Appendix E of DESIGN.md from selftest/RESULTS.md and seeded/RESULTS.md + seeded/*/meta.json."""
import json, os, re
VERIF = os.path.dirname(os.path.dirname(os.path.abspath(__file__)))
os.chdir(VERIF)
out = ["## Appendix E — which checks catch which changes\n",
       "Two sources of breakage are used to test the monitors; neither is ever committed to /repo.\n",
       "### E.1 Independently seeded changes (`seeded/<id>/`)\n",
       "Written by sub-agents that were given only the text of one property and a scratch git worktree of /repo (nothing from /verif). Each change compiles, passes the repository's 112 tests, "
       "and comes with a demonstration program that fails with the change and passes without it; I re-validated all of that in a fresh worktree (`tools/keep_seed.py`, results in `meta.json`). "
       "`tools/run_seeds.py` applies each patch to a fresh worktree of /repo HEAD and runs the quick check of the broken property against it (`VERIF_REPO=<worktree>`); "
       "the table is its last output (`seeded/RESULTS.md`). Seeds marked † were missed when they arrived and made me strengthen the check named in the last column.\n"]
strengthened = {
    "C12-a": "C12: capacity probe and completion of other requests after injected failures are now C12 clauses (were only filed under C02/C04/C05)",
    "C09-a": "C09: negative pool_size on constructor and setter added to the generator, snapshot around the rejected assignment",
    "C19-a": "C19: connect and handshake are separate actions (deferred / interleaved handshakes)",
    "C14-b": "C14: stop() raising is always a violation (was tolerated when tasks cancelled before their first step were around)",
    "C09-b": "C09: differential no-trace family (same run without the rejected requests must give the same log)",
    "C07-b": "C07: an undelivered cancellation is blamed on every route that requested it (group → C07.members_cancelled, stop → C14.targets)",
    "C02-c": "C02: pool_size assignments added to the generator; the capacity probe also runs after reassignments (against the configured size)",
    "C08-c": "pool generator: cancel / cancel_group / cancel_all are now also called with msg=...",
    "C16-c": "C16: new 'server' family over real sockets with interleaved connects and handshakes",
    "C17-c": "C17: a second session of the same width sends help requests / ill-formed lines between the commands",
    "C18-c": "control world: sessions are built on a real (never started) server object instead of a stub, so the seed is caught for the right reason (deadlock), not for a missing attribute",
    "C19-c": "C19: a dead socket file may already sit at the Unix socket path when the server starts",
    "C20-c": "C20: falsy / None items and a consumer holding two nested blocks of the same queue",
    "C01-d": "C01: an empty pool may be reconfigured to a larger size (grow-only, also twice in one tick) before the fixed-size phase starts",
    "C04-d": "C04: occasional pool_size assignments in the C04 generator",
    "C05-d": "C05: empty elements () / [] / {} for starmap / doublestarmap (func() must be called without arguments)",
    "C11-d": "C11: pools named with the empty string (shown under their index) take part in the distinct-names check",
    "C12-d": "injected exceptions are instances of several builtin families (TypeError, ValueError, KeyError, RuntimeError, OSError), still compared by identity",
    "C14-d": "C14: two SimpleTaskPools in one loop",
    "C15-d": "C15: new 'session' family - pool_size read and assigned through control commands, compared with a twin pool",
    "C16-d": "C16: subclass members with blank and missing docstrings",
    "C17-d": "C17: empty-string values (mid-line) and values containing TAB / NBSP / ideographic space",
    "C18-d": "C18: new 'sockets' family - several clients of one real Unix/TCP server, the first one leaves",
    "C19-d": "C19: clients that send a blank line (or nothing) and leave without a handshake; SIGALRM watchdog that turns a spinning handler (loop stuck inside one handle) into a violation; unique pool names so that a recycled TCP port of another process is not mistaken for the stopped server",
    "C12-e": "C12: pool_size assignments in the fault generator (a failing end callback corrupts the room accounting only once the size is reassigned)",
    "C16-e": "C16: an unknown command of 5000-9000 characters (hence a very long reply) precedes the help round in half of the cases",
    "C19-e": "C19: clients also send spawn commands (apply / start), in particular while the pool is locked (the reply is an empty line, but it is a reply)",
    "C20-e": "C20: non-blocking producers (put_nowait on bounded queues, QueueFull caught)",
    "C04-e": "C04: two pools per scenario half of the time; a task that was created for an invocation, never cancelled and never began is now a C04 clause (lost_invocation)",
    "C06-f": "pool world: workers may wait in `async with queue` on the library's own Queue (suspension point inside library code); items are put, alone or in the same handle as a cancellation of a waiting worker, in either order",
    "C07-f": "placement sweeps: three more base scenarios with more than ten task starts per pool (tenth start, two-digit ids); random generator: ~8% long histories (60-160 steps, apply num 12/15, map of 20/30 elements)",
    "C09-f": "C09: the rejected callables are created per request (closures, lambdas, bound methods) instead of module-level constants, so object ids get recycled the way they do in a long-lived program",
    "C10-f": "C10: 'burst' operation - 11 to 14 unnamed requests for the same function back to back (two-digit group indices); a request without a group name failing over its own generated name is a C10 clause",
    "C12-f": "map family: elements whose call raises come in short and long (> 80 characters) forms and several types (int, None, big int, tuple, dict, frozenset)",
    "C16-f": "C16 server family: the same server object serves one to three periods (stop, everybody leaves, serve_forever() again)",
    "C17-f": "C17: dotted paths into lazily imported packages (vf.lazy...), with the import state of the package chain (0-4 levels already imported) as an input - this found defect D11 in the unchanged code",
    "C18-f": "control grammar: text parameters (group names) and number parameters now share part of their vocabulary ('7', '10', 'abc', 'one', '1.5')",
    "C19-f": "C19: up to three serving periods per server object, clients of an earlier period may still be connected (earlier serving task pending) and leave while the server serves again; is_serving() is checked before every action - this found defect D12 in the unchanged code",
    "C01-g": "C01: the size a pool already has may be assigned once more at any time (operation 'set_same', also from workers / callbacks and in the placement sweeps) - the pool size stays fixed, as C01's quantifier demands",
    "C03-g": "callbacks may be callable objects that are falsy while empty (a list subclass collecting ids)",
    "C04-g": "pool names with '%', '{}', blanks, non-ASCII and long names; group names likewise ('g1%', '%s-2', '{}3', '%(x)s4', 'a%%b5', '-g6', ...)",
    "C06-g": "C06: new 'session' family - cancel sent as a control command while a second served pool of the same class (decoy) receives the same lines first; compared with a twin pool driven directly",
    "C08-g": "requests that name their group may pass a functools.partial as func - this found defect D13 in the unchanged code",
    "C09-g": "apply may get a one-shot iterator as args (requests with at most one invocation and rejected requests); a rejected request must not advance it",
    "C10-g": "unknown / dead group names with '%' and '{}'; 'an unknown name raises InvalidGroupName' (filed under C07.unknown / C07.forgotten) now also counts for C10",
    "C11-g": "callbacks given as functools.partial with positional arguments bound in advance; a callback called with something that is not a task id is a C11 clause (and no longer crashes the harness)",
    "C15-g": "async callbacks may let a CancelledError that reaches them pass (abandoned flush) instead of swallowing it; C15 profile with abandoned flushes and slow callbacks",
    "C16-g": "C16: read-only members and static methods of the served class are executed as commands and compared with the direct access (subclasses now define static methods and override inherited members)",
    "C17-g": "C17: pool subclasses override inherited public members (lock, cancel_all, pool_size) - the command must reach the override",
    "C20-g": "C20: a wait for an item that ends with anything but CancelledError is a violation; join() pending at idle with an empty queue and no open block is a violation; every fourth execution runs with the library's loggers at DEBUG (formatting sink)",
    "C04-h": "pool world: the empty string is used as a group name like any other (widened from the seeding agents' reports before this seed was run)",
    "C09-h": "same widening as C04-h: a duplicate of the group name '' has to be rejected like any other duplicate",
    "C16-h": "C16: terminal widths 0..9 are sampled; help for two different tiny widths must be byte-identical (argparse never formats narrower than its minimum), which exposes a width that is silently replaced",
    "C19-h": "C19: the CLI client's exit command in several spellings ('Exit', ' exit ', 'eXiT'), followed by further lines that must never reach the server (pool snapshot before / after the dialogue, no echo of the later lines)",
    "C08-h": "C08: spawners of groups cancelled before the call (even in the same tick) have to be over when gather_and_close() returns - this found defect D15 in the unchanged code",
    "C12-h": "C12: new clause must_raise - flush() / gather_and_close() without return_exceptions returning normally although a task they still remembered had failed",
    "C18-h": "C18: 'pool-size -N' among the lines that must change nothing; scenarios in which the pool was shrunk below what is running before the clients arrive",
    "C04-i": "functions given as callable objects marked as coroutine functions, and partials of such objects (named requests)",
    "C06-i": "new 'eager' family (vf/eager.py, also for C10 and C11): a small schedule-independent world under asyncio.eager_task_factory - unique / dense ids, group membership, exact delivery of cancel / cancel_group, counts, the close - with workers that use the pool in their synchronous prologue",
    "C08-i": "environment: every fifth execution installs an ordinary (lazy) custom task factory on the loop (widened from the agents' reports before this seed was run)",
    "C10-i": "the 'eager' family of C06-i (map / starmap / doublestarmap under the eager task factory: group membership)",
    "C13-i": "workers may await flush() of their own pool inline (a housekeeping task): a cancellation of such a worker has to be delivered (new clause C13.running_cancellable), the flush counts as abandoned; sweep base with workers that request + cancel a group and then flush inline",
    "C16-i": "subclasses define a public method with a Callable[[int], None] parameter (a hook that returns nothing)",
    "C17-i": "the texts 'None' and 'True' as values of text parameters",
    "C18-i": "C18: a request and cancel-all pipelined in one segment (the spawner is cancelled before its first step), followed at some point by flush / gather-and-close without -r",
    "C06-e": "(caught on arrival, lost when later generator changes diluted the accidental trigger, found again by the 3-seed matrix) workers may wait for another pool to be closed (`await aux.until_closed()`), several at a time; the quick tier now runs the complete table of single sweep placements instead of a 2500-case stride",
    "C02-j": "C02 ('its callbacks fire'): a task that ended by cancellation without its cancel callback (clause C03.cancel_cb_iff) now also counts for C02",
    "C03-j": "C03: pool_size assignments in the C03 generator (tasks ending while the pool is over-full after a shrink)",
    "C09-j": "C09: new 'session' family - requests with and without rejection causes (num_concurrent 0 / -1, duplicate names, a function that is no coroutine function, a locked pool) sent as control commands and compared with a twin pool (widened from the agents' reports before this seed was run)",
    "C12-j": "C12.must_raise also uses what the user code itself knows: an exception raised by a body or callback of a still remembered task has to surface in flush() / gather_and_close() even if the pool swallowed it and the Task ended cleanly",
    "C14-j": "C14: gather_and_close() without return_exceptions and failing workers in the C14 generator (a close that fails while other workers are still running; stop() afterwards)",
    "C15-j": "C15: a request that waited for room and never completed in a pool whose size was reassigned is a C15.grow_wakes violation (was only filed under C04 / C05)",
    "C16-j": "C16 server family: one client may sit in until-closed while the others handshake, ask for help and run property commands; the parked client is released by closing the pool",
    "C18-j": "C18: pipelined segments of two or three lines drawn from requests, cancel-all, pool-size reads / assignments and probes (one reply per line, session alive)",
    "C19-j": "C19: is_serving() has to be false right after the stop (with clients still connected), not only once the serving task has completed",
    "C01-k": "C01: pools may get their size by assignment right after construction (operation 'init_size', before any request; in particular pools created without a size), two pools per scenario more often",
    "C12-k": "C12: a violation of a C10 clause (group membership, names) in a run with injected failures also counts for C12 (groups_after_failure: later requests proceed as if the failed one had succeeded)",
    "C20-l": "C20: every falsy item is put twice in a row (the very same object back to back; counter put.same_object_as_previous has a floor) and a sweep base scenario of back-to-back put_nowait",
    "C18-l": "not seen by C18 (every line is still answered once); caught by C16.member_help / C16.command_set, the property the cached help text really breaks",
    "C03-l": "C03: an un-owed CancelledError that lands inside a callback is a C03 clause of its own (C03.cb_undisturbed); it used to be filed under C06 / C07 / C14 / C15 only and showed as NOTE lines in C03 runs",
    "C16-k": "C16: after the help round another client with a different terminal width connects (to another pool of the process); the help shown to the first client must not change",
    "C17-k": "C17: pool sizes beyond 2**53 (2**53+1, 10**18+1, 10**30)",
    "C18-k": "C18: application code waits for the close of the served pool and gives up (its until_closed() call is cancelled); parked sessions must stay alive (their session task is checked)",
    "C04-j": "(caught on arrival, 1-2 of 3 VERIF_SEEDs in the matrix) sweep operation 'pause_resume': pool_size 0 and back to the constructor's size in one handle, at every placement",
    "C02-i": "(caught on arrival, weak in the 3-seed matrix) sweep base with gather_and_close() already waiting for gated workers and slow cancel callbacks; gather_and_close more frequent in the C02 generator",
    "C08-e": "C08: pool_size assignments in the C08 generator (while tasks are inside callbacks)",
    "C13-e": "C13: new 'server' family - a session's pending flush plus the program's own flush while the control server is stopped; pool generator: flush calls whose caller gives up (cancelled flush) are modelled",
    "C14-e": "C14: exact oracle for stop()/stop_all() also when tasks cancelled before their first step are around (was lenient there)",
    "C17-e": "C17: a target function that empties the lists it receives, nested-list literals sent repeatedly",
    "C18-e": "C18 sockets family: the control server is stopped while a client waits in until-closed, then the program closes the pool: the reply is still owed",
    "C18-b": "C18: failing tasks in the pre-population and explicit waiting commands in the line mix (detection was borderline)",
}
rows = {}
if os.path.exists("seeded/RESULTS.md"):
    for line in open("seeded/RESULTS.md"):
        m = re.match(r"\| (C\d\d-\w+) \| (C\d\d) \| ([^|]+) \| (.*) \|", line)
        if m:
            rows[m.group(1)] = m.groups()
out.append("| seed | breaks | what it needs to manifest (from the seeder's notes) | quick check of that property | first alarm / note |\n|---|---|---|---|---|\n")
for sid in sorted(d for d in os.listdir("seeded") if os.path.isdir(os.path.join("seeded", d))):
    meta = json.load(open(f"seeded/{sid}/meta.json"))
    need = " ".join(meta["needs_to_manifest"].split())
    need = re.sub(r"[|`#*]", "", need)[:260]
    r = rows.get(sid, (sid, meta["breaks_property"], "not run", ""))
    note = r[3][:150]
    if sid in strengthened:
        note = "† " + strengthened[sid]
    out.append(f"| {sid}{'†' if sid in strengthened else ''} | {meta['breaks_property']} | {need} | {r[2].strip()} | {note} |\n")
out.append("\n### E.2 My own deliberate breakages (`selftest/mutants.py`)\n\n"
           "`tools/run_selftest.py` applies each to a fresh worktree, runs the repository's tests (several of these are visible to the unit tests - they are kept because they check the monitors, "
           "not the tests) and the quick checks named for the mutant. Last run (`selftest/RESULTS.md`):\n\n")
if os.path.exists("selftest/RESULTS.md"):
    txt = open("selftest/RESULTS.md").read()
    last = txt.split("## selftest run")[-1]
    out.append("selftest run" + last)
s = open("DESIGN.md").read()
i = s.find("## Appendix E")
if i >= 0:
    s = s[:i].rstrip() + "\n\n\n"
else:
    s = s.rstrip() + "\n\n\n"
open("DESIGN.md", "w").write(s + "".join(out))
print("appendix E written,", len(rows), "seed rows")
