#!/usr/bin/env python3
"""Run the quick check of the broken property against every kept seed (fresh worktree of /repo HEAD + patch); write seeded/RESULTS.md."""
import json, os, shutil, subprocess, sys, time
VERIF = os.path.dirname(os.path.dirname(os.path.abspath(__file__)))
rows = []
only = set(sys.argv[1:])
for sid in sorted(os.listdir(os.path.join(VERIF, "seeded"))):
    d = os.path.join(VERIF, "seeded", sid)
    if not os.path.isdir(d) or (only and sid not in only):
        continue
    meta = json.load(open(os.path.join(d, "meta.json")))
    prop = meta["breaks_property"]
    wt = f"/tmp/runseed-{sid}"
    subprocess.run(["git", "-C", "/repo", "worktree", "remove", "--force", wt], capture_output=True)
    subprocess.run(["git", "-C", "/repo", "worktree", "add", "--detach", "-f", wt], check=True, capture_output=True)
    try:
        a = subprocess.run(["git", "apply", os.path.join(d, "patch.diff")], cwd=wt, capture_output=True, text=True)
        if a.returncode:
            rows.append((sid, prop, "patch does not apply to current HEAD", ""))
            continue
        seeds = os.environ.get("SEEDS", "0").split()
        codes, first = [], ""
        for sd in seeds:
            r = subprocess.run([os.path.join(VERIF, "check"), prop], capture_output=True, text=True,
                               env={**os.environ, "VERIF_SEED": sd, "VERIF_REPO": wt, "VERIF_NO_FLOORS": "1", "VERIF_EVIDENCE_DIR": f"/tmp/runseed-ev-{sid}/evidence"})
            codes.append(r.returncode)
            first = first or next((l[2:160] for l in r.stdout.splitlines() if l.startswith("# ")), "")
        n1 = sum(1 for c in codes if c == 1)
        verdict = (f"caught (VIOLATION) {n1}/{len(codes)} seeds" if n1 == len(codes) else f"caught {n1}/{len(codes)} seeds, others: {sorted(set(c for c in codes if c != 1))}" if n1
                   else {0: "MISSED (held)", 2: "inconclusive"}.get(codes[0], f"exit {codes[0]}"))
        rows.append((sid, prop, verdict, first.replace("|", "/")))
        print(rows[-1], flush=True)
    finally:
        subprocess.run(["git", "-C", "/repo", "worktree", "remove", "--force", wt], capture_output=True)
        shutil.rmtree(wt, ignore_errors=True)
        shutil.rmtree(f"/tmp/runseed-ev-{sid}", ignore_errors=True)
if only:
    # a partial run: keep the rows of the other seeds from the last table
    res = os.path.join(VERIF, "seeded", "RESULTS.md")
    old_rows = []
    if os.path.exists(res):
        for line in open(res):
            cells = [c.strip() for c in line.strip().strip("|").split(" | ")]
            if line.startswith("| C") and len(cells) >= 4 and cells[0] not in {r[0] for r in rows}:
                old_rows.append((cells[0], cells[1], cells[2], " | ".join(cells[3:])))
    rows = sorted(old_rows + rows)
head = subprocess.run(["git", "-C", "/repo", "log", "--format=%h", "-1"], capture_output=True, text=True).stdout.strip()
with open(os.path.join(VERIF, "seeded", "RESULTS.md"), "w") as f:
    f.write(f"# Independently seeded changes vs. the quick check of the property they break\n\nrun {time.strftime('%Y-%m-%d %H:%M')}, /repo HEAD {head}{' (rows of ' + ' '.join(sorted(only)) + ' re-run, the others kept from the previous table)' if only else ''}; "
            "each change was written by a sub-agent that saw only the property text and a scratch worktree (see meta.json per seed).\n\n"
            "| seed | property | quick check | first alarm |\n|---|---|---|---|\n")
    for r in rows:
        f.write("| " + " | ".join(r) + " |\n")
print(sum(1 for r in rows if r[2].startswith("caught")), "of", len(rows), "caught")
