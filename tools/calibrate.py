#!/usr/bin/env python3
"""Measure every floor counter over several seeds on the current tree and write vf/floors.json = 0.4 x the minimum seen."""
import json, os, subprocess, sys, tempfile
VERIF = os.path.dirname(os.path.dirname(os.path.abspath(__file__)))
sys.path.insert(0, VERIF)
from vf import checks, checks_more  # noqa
props = sys.argv[1:] or sorted(checks.CHECKS)
path = os.path.join(VERIF, "vf", "floors.json")
cal = json.load(open(path)) if os.path.exists(path) else {}
for cid in props:
    mins = {}
    for seed in range(5):
        d = tempfile.mkdtemp()
        env = {**os.environ, "VERIF_SEED": str(seed), "VERIF_NO_FLOORS": "1", "VERIF_EVIDENCE_DIR": os.path.join(d, "evidence")}
        r = subprocess.run([os.path.join(VERIF, "check"), cid], env=env, capture_output=True, text=True)
        if r.returncode != 0:
            print(cid, "seed", seed, "exit", r.returncode, r.stdout[-300:])
        ev = json.load(open(os.path.join(d, "evidence", f"{cid}.json")))["coverage"]["situations"]
        for k, v in ev.items():
            mins[k] = min(mins.get(k, 10**12), v)
        for k in list(mins):
            if k not in ev:
                mins[k] = 0
    os.environ.pop("VERIF_NO_FLOORS", None)
    names = checks.get(cid).floors("quick").keys() if not os.environ.get("VERIF_NO_FLOORS") else []
    cal[cid] = {k: int(mins.get(k, 0) * 0.4) for k in names}
    for k, v in cal[cid].items():
        if v < 12:
            cal[cid][k] = max(1, v // 3)  # rare situations: keep the floor far below anything seen
    print(cid, cal[cid])
json.dump(cal, open(path, "w"), indent=1, sort_keys=True)
