#!/bin/sh
# quick tier of every check for several seeds; prints only the summary lines (used with `vp run`)
cd "$(dirname "$0")/.." || exit 1
for seed in ${SEEDS:-2 3 4 5 6 7}; do
  for c in C01 C02 C03 C04 C05 C06 C07 C08 C09 C10 C11 C12 C13 C14 C15 C16 C17 C18 C19 C20; do
    VERIF_SEED=$seed VERIF_EVIDENCE_DIR=$PWD/.quick/ev$seed/evidence ./check $c 2>&1 | grep -v "^KNOWN" | tail -3 | sed "s/^/seed=$seed /"
  done
done
