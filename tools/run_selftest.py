#!/usr/bin/env python3
"""Apply each deliberate breakage to a scratch copy of /repo, make sure the repo's own tests still pass,
run the intended quick checks against the copy and report which ones notice.  Never touches /repo."""
import json, os, shutil, subprocess, sys, tempfile, time
sys.path.insert(0, os.path.join(os.path.dirname(os.path.abspath(__file__)), ".."))
from selftest.mutants import M

VERIF = os.path.dirname(os.path.dirname(os.path.abspath(__file__)))
only = set(sys.argv[1:])
rows = []
for mu in M:
    if only and mu["name"] not in only:
        continue
    d = tempfile.mkdtemp(prefix="vfmut_")
    try:
        subprocess.run(["git", "-C", "/repo", "worktree", "add", "--detach", "-f", os.path.join(d, "r")], check=True, capture_output=True)
        root = os.path.join(d, "r")
        # the working tree of /repo may be ahead of HEAD only by our fixes (committed), so HEAD is what we want
        p = os.path.join(root, "src", "asyncio_taskpool", mu["file"])
        s = open(p).read()
        if mu["old"] not in s:
            rows.append((mu["name"], "n/a (pattern not present)", "", ""))
            continue
        open(p, "w").write(s.replace(mu["old"], mu["new"], 1))
        t = subprocess.run(["/venv/bin/python", "-m", "pytest", "-q", "-p", "no:cacheprovider", "-x", "--timeout=300"], cwd=root, capture_output=True, text=True,
                           env={**os.environ, "PYTHONPATH": os.path.join(root, "src")})
        tests_ok = t.returncode == 0
        res = {}
        for prop in mu["props"] or ["C01", "C02", "C07"]:
            env = {**os.environ, "VERIF_REPO": root, "VERIF_EVIDENCE_DIR": os.path.join(d, "ev")}
            r = subprocess.run([os.path.join(VERIF, "check"), prop, "--tier", "quick"], capture_output=True, text=True, env=env)
            res[prop] = {0: "held", 1: "VIOLATION", 2: "inconclusive"}.get(r.returncode, f"exit {r.returncode}")
        rows.append((mu["name"], "tests pass" if tests_ok else "TESTS FAIL", json.dumps(res), mu.get("note", "")))
        print(rows[-1], flush=True)
    finally:
        subprocess.run(["git", "-C", "/repo", "worktree", "remove", "--force", os.path.join(d, "r")], capture_output=True)
        shutil.rmtree(d, ignore_errors=True)
with open(os.path.join(VERIF, "selftest", "RESULTS.md"), "w" if not only else "a") as f:
    f.write(f"\n## selftest run {time.strftime('%Y-%m-%d %H:%M')} (repo HEAD {subprocess.run(['git','-C','/repo','log','--format=%h','-1'],capture_output=True,text=True).stdout.strip()})\n\n")
    f.write("| breakage | repo tests | quick checks | note |\n|---|---|---|---|\n")
    for r in rows:
        f.write("| " + " | ".join(str(x) for x in r) + " |\n")
