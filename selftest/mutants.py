"""Deliberate breakages used to test the monitors (DESIGN.md section 7).

Each entry: name, file (relative to src/asyncio_taskpool), old text, new text, properties expected to notice.
"""

M = []


def m(name, file, old, new, props, note=""):
    M.append({"name": name, "file": file, "old": old, "new": new, "props": props, "note": note})


POOL = "pool.py"
m("no_release", POOL, "        self._room_taken -= 1\n        self._enough_room.release()\n", "        self._room_taken -= 1\n        if task_id % 5 != 3:\n            self._enough_room.release()\n",
  ["C02", "C05"], "every task whose id % 5 == 3 never hands its room back")
m("release_after_callback", POOL,
  "        self._room_taken -= 1\n        self._enough_room.release()\n        log.info(\"Ended %s\", self._task_name(task_id))\n        await execute_optional(custom_callback, args=(task_id,))\n",
  "        self._room_taken -= 1\n        log.info(\"Ended %s\", self._task_name(task_id))\n        try:\n            await execute_optional(custom_callback, args=(task_id,))\n        finally:\n            self._enough_room.release()\n",
  ["C01", "C05"], "room released only after the user end callback: is_full / work conservation differ while a callback is slow")
m("cancel_as_you_go", POOL,
  "        tasks = [self._get_running_task(task_id) for task_id in task_ids]\n        kw = self._get_cancel_kw(msg)\n        for task_id, task in zip(task_ids, tasks):\n            self._cancel_task(task_id, task, **kw)\n",
  "        kw = self._get_cancel_kw(msg)\n        for task_id in task_ids:\n            self._cancel_task(task_id, self._get_running_task(task_id), **kw)\n",
  ["C06"], "cancel() cancels the leading valid ids before it notices an invalid one")
m("members_before_spawner", POOL,
  "        self._cancel_group_meta_tasks(group_name)\n        while group_reg:",
  "        ids = list(group_reg)\n        for i in ids:\n            group_reg.discard(i)\n            t = self._tasks_running.get(i)\n            if t is not None:\n                self._cancel_task(i, t, **cancel_kw)\n        self._cancel_group_meta_tasks(group_name)\n        while group_reg:",
  [], "equivalent reordering inside one handle (expected NOT to be caught)")
m("no_coroutine_close_map", POOL,
  "                coroutine.close()\n                if semaphore_acquired:\n                    semaphore.release()\n                return\n",
  "                if semaphore_acquired:\n                    semaphore.release()\n                return\n",
  [], "never-awaited coroutine warning only (diagnostic)")
m("map_slot_after_pool_slot", POOL,
  "                semaphore_acquired = await semaphore.acquire()\n                await self._start_task(",
  "                semaphore_acquired = True\n                await self._start_task(",
  ["C05"], "map no longer waits for its own concurrency slot")
m("stop_not_reversed", POOL, "enumerate(reversed(self._tasks_running))", "enumerate(self._tasks_running)", ["C14"], "stop() is FIFO")
m("stop_off_by_one", POOL, "            if i >= num:\n", "            if i > num:\n", ["C14"], "stop(n) cancels n+1")
m("map_eager_pull", POOL,
  "        for i, next_arg in enumerate(arg_iter):\n            semaphore_acquired = False",
  "        for i, next_arg in enumerate(list(arg_iter)):\n            semaphore_acquired = False",
  ["C05", "C07"], "iterable consumed eagerly")
m("apply_off_by_one_on_cancel_resume", POOL,
  "        for i in range(num):\n            try:\n                coroutine = func(*args, **kwargs)",
  "        for i in range(num if num < 7 else num - 1):\n            try:\n                coroutine = func(*args, **kwargs)",
  ["C04"], "apply loses one invocation for num >= 7")
m("group_not_forgotten", POOL,
  "            group_reg = self._task_groups.pop(group_name)\n        except KeyError:\n            raise TaskGroupNotFound(group_name) from None\n",
  "            group_reg = self._task_groups[group_name]\n        except KeyError:\n            raise TaskGroupNotFound(group_name) from None\n",
  ["C07", "C10"], "cancel_group leaves the name registered")
m("flush_forgets_running_cancelled", POOL,
  "        for task_id in gathered:\n            self._tasks_ended.pop(task_id, None)\n            self._tasks_cancelled.pop(task_id, None)\n",
  "        self._tasks_ended.clear()\n        self._tasks_cancelled.clear()\n",
  ["C13", "C03"], "reverts the flush fix")
m("lock_check_in_spawner", POOL, "        ignore_lock: bool = True,\n", "        ignore_lock: bool = False,\n", ["C04", "C08"], "reverts the lock fix")
m("end_callback_before_state", POOL,
  "        self._room_taken -= 1\n        self._enough_room.release()\n        log.info(\"Ended %s\", self._task_name(task_id))\n        await execute_optional(custom_callback, args=(task_id,))\n",
  "        self._room_taken -= 1\n        self._enough_room.release()\n        log.info(\"Ended %s\", self._task_name(task_id))\n        if task_id % 4 == 1:\n            await execute_optional(custom_callback, args=(task_id,))\n        await execute_optional(custom_callback, args=(task_id,))\n",
  ["C02", "C03"], "end callback fired twice for some ids")
m("gac_no_lock", POOL, "        self.lock()\n        # The cancelled meta tasks", "        # The cancelled meta tasks", ["C08", "C09"], "gather_and_close does not lock")
m("closed_precedence", POOL,
  "        if self._closed.is_set():\n            raise PoolIsClosed\n        if self._locked and not ignore_lock:\n            raise PoolIsLocked\n",
  "        if self._locked and not ignore_lock:\n            raise PoolIsLocked\n        if self._closed.is_set():\n            raise PoolIsClosed\n",
  ["C09", "C08"], "locked reported before closed")
m("dup_name_check_late", POOL,
  "        if group_name in self._task_groups:\n            raise TaskGroupAlreadyExists(group_name)\n        self._task_groups[group_name] = TaskGroupRegister()\n",
  "        self._task_groups.setdefault(group_name, TaskGroupRegister())\n",
  ["C09", "C10"], "map into an existing group silently joins it")
m("pool_size_getter_free_room", POOL,
  "        return (\n            self._enough_room._value\n            + self._room_in_use()\n            - self._enough_room.excess\n        )\n",
  "        return self._enough_room._value\n", ["C15"], "reverts the getter")
m("generated_name_reuse", POOL, "            if name not in self._task_groups:\n                return name\n            i += 1",
  "            if name not in self._task_groups or i >= 2:\n                return name\n            i += 1", ["C10", "C09"], "third generated name collides")
m("task_id_reuse_after_flush", POOL,
  "        for task_id in gathered:\n            self._tasks_ended.pop(task_id, None)\n            self._tasks_cancelled.pop(task_id, None)\n",
  "        for task_id in gathered:\n            self._tasks_ended.pop(task_id, None)\n            self._tasks_cancelled.pop(task_id, None)\n        if not self._tasks_running and self._num_started > 6:\n            self._num_started -= 1\n",
  ["C11"], "an id is reused after a flush of an idle pool")

Q = "queue_context.py"
m("queue_clean_exit_only", Q, "        self.item_processed()\n", "        if exc_type is None:\n            self.item_processed()\n", ["C20"])
m("queue_cancel_not_marked", Q, "        self.item_processed()\n", "        from asyncio import CancelledError as _CE\n        if exc_type is None or not issubclass(exc_type, _CE):\n            self.item_processed()\n", ["C20"])

S = "control/session.py"
m("session_no_truncate", S, "            self._response_buffer.seek(0)\n            self._response_buffer.truncate()\n", "            self._response_buffer.seek(0)\n", ["C18"])
m("session_setter_ok", S, "            output = await return_or_exception(prop.fset, self._pool, **kwargs)  # type: ignore[call-arg]\n            self._response_buffer.write(\n                CMD_OK.decode() if output is None else str(output)\n            )\n",
  "            await return_or_exception(prop.fset, self._pool, **kwargs)  # type: ignore[call-arg]\n            self._response_buffer.write(CMD_OK.decode())\n", ["C17"], "reverts the setter fix (only applies once that fix exists)")
m("session_result_repr", S, "            CMD_OK.decode() if output is None else str(output)\n        )\n\n    async def _exec_property",
  "            CMD_OK.decode() if output is None else repr(output)\n        )\n\n    async def _exec_property", ["C17"], "repr instead of str for method results")
PA = "control/parser.py"
m("parser_exit_not_overridden", PA, "        if message:\n            self._print_message(message)\n\n    def error", "        if message:\n            self._print_message(message)\n        if status == 2 and message and 'zzz' in message:\n            raise SystemExit(status)\n\n    def error",
  ["C18"], "exit() raises SystemExit for some usage errors")
m("parser_prints_to_stderr", PA, "        if message:\n            self._stream.write(message)\n", "        if message:\n            self._stream.write(message)\n            if len(message) > 3000:\n                import sys\n                sys.stderr.write(message)\n", ["C18", "C16"], "very long messages also go to stderr")
m("parser_public_only_off", PA, "            if name in omit_members or (name.startswith(\"_\") and public_only):\n", "            if name in omit_members or (name.startswith(\"__\") and public_only):\n", ["C16"], "protected members exposed")
m("parser_flag_default_true", PA, "                kwargs.setdefault(\"action\", \"store_true\")\n", "                kwargs.setdefault(\"action\", \"store_false\")\n", ["C17"], "boolean flags inverted")
m("parser_default_not_set", PA, "                kwargs.setdefault(\"default\", parameter.default)\n", "                pass\n", ["C17"], "omitted options become None instead of the method default")
SV = "control/server.py"
m("server_no_unlink", SV, "        self._socket_path.unlink()\n", "        pass\n", ["C19"])
m("server_no_writer_close", SV, "        finally:\n            # Without this the server can not finish closing.\n            writer.close()\n", "        finally:\n            pass\n", ["C19"], "reverts the writer.close fix (only applies once that fix exists)")

# --- reverts / weakenings of the later repairs (D11 - D17): the checks must protect them
m("revert_D11_dotted_path", "internals/helpers.py",
  "        module_name += f\".{name}\"\n        try:\n            found = getattr(found, name)\n        except AttributeError:\n            import_module(module_name)\n",
  "        try:\n            found = getattr(found, name)\n        except AttributeError:\n            module_name += f\".{name}\"\n            import_module(module_name)\n",
  ["C17"], "the module prefix only grows when an attribute lookup fails again")
m("revert_D13_func_name", POOL, "                    getattr(func, \"__name__\", repr(func)),\n", "                    func.__name__,\n", ["C04", "C08"], "func.__name__ in the first log handler again (partial / callable object + call-time raise)")
m("revert_D14_mark_after_create", POOL,
  "            self._tasks_unstarted.add(task_id)\n            self._tasks_running[task_id] = task = create_task(",
  "            self._tasks_running[task_id] = task = create_task(",
  ["C02", "C08"], "tasks are never marked as not yet started: a cancellation before the first step is a real Task.cancel() again")
m("revert_D15_first_cancelled_meta_ends_wait", POOL,
  "        results = await gather(\n            *self._meta_tasks_cancelled, return_exceptions=True\n        )\n        if not return_exceptions:\n            for result in results:\n                if isinstance(result, Exception):\n                    raise result\n",
  "        try:\n            await gather(*self._meta_tasks_cancelled, return_exceptions=return_exceptions)\n        except CancelledError:\n            pass\n",
  ["C08"], "gather_and_close stops waiting for the cancelled spawners at the first one that is done")
m("revert_D16_no_first_step", SV, "        try:\n            await sleep(0)\n        except CancelledError:\n            task.cancel()\n            raise\n        return task\n", "        return task\n",
  ["C19"], "serve_forever() returns the task before it has taken its first step")
m("revert_D17_not_superseded_early", SV, "        self._server = None\n        self._server = await self._get_server_instance(", "        self._server = await self._get_server_instance(",
  ["C19"], "an earlier serving task is only superseded once the new server instance exists")
m("revert_D12_final_callback_always", SV, "            if self._server is server:\n                self._final_callback()\n", "            self._final_callback()\n",
  ["C19"], "a superseded serving task runs the final callback again")
